"""C03 -- parse and evaluate fail only with ElementPathError; parsers stay reusable.

Specs: spec/Outcome.tla (legal outcome classes), spec/Tokens.tla (all token sequences over a
representative alphabet, grammar classes for anti-vacuity, one-token mutations and their seeded
choice), spec/ArgClass.tla (function-call family),
spec/ParserLife.tla (step machine of Parser.parse / advance / finally-reset, history
variable `first`, API view + refinement), spec/TraceParserLife.tla (binding B).

Binding A
  * every state of the Tokens graph (a token sequence) is rendered in two layouts (spaced, glued),
    parsed by XPath1Parser/XPath2Parser/XPath30Parser/XPath31Parser and, if it parses, evaluated
    (evaluate + get_results) on a small document, with item=1 and with variables bound; every
    outcome is projected to a shape [k, coded] and must be a member of the legal sets printed by TLC;
  * TLC-chosen one-token mutations (descriptors <<op, i, tok>>) are applied 1:1 to the token lists
    of the expressions harvested from the repository's test-suite run, same judgement;
  * every state of the ArgClass graph -- (built-in function, parameter position, argument class) over the
    LIVE function_signatures table + the xs: constructors (binding C), classes: untyped node,
    xs:untypedAtomic valid/invalid, empty, wrong-typed atomics, sequence, function/map/array item, huge
    negative integer, malformed URI, U+0000 -- is rendered to a call and judged the same way;
  * calls of the F&O functions with a $collation parameter take the collation classes of ArgClass.tla
    (codepoint / html-ascii / UCA URIs, the locale active for LC_COLLATE at run time, 'C', 'POSIX', 'C.utf8',
    unknown, empty), are made TWICE in a row in one process, and once more through default_collation; a
    collation lock left held after a legal return is a failure of its own (kind lock-held);
  * CALL FORMS of ArgClass.tla: every function of the live table (fn:concat at arities 2..5) reached through the
    arrow operator, a named reference, a let-bound reference, partial application (first / last argument),
    fn:apply, fn:function-lookup, and the same with one argument too many;
  * STATIC CONTEXTS of ArgClass.tla: predeclared prefixes re-bound / unbound / aliased and default function
    namespaces x the spelling of the name (prefixed, unprefixed, EQName) x ok / too many / too few / zero
    arguments / unknown name;
  * the description paths of every outcome: str() and repr() of the error and of its token, .source / .tree /
    str() / repr() of the root token must not raise anything else either;
  * spec/AtomicPool.tla: every atomic type (and NaN / INF / -0) as map key, array member, set operand, in
    distinct-values / index-of / deep-equal / sort / min / max, as function argument, and every PAIR of types in
    comparisons, arithmetic, two-key maps;
  * spec/DynContext.tla: 16 dynamic-context classes (document / element root, fragment, item None / atomic / element /
    attribute / text, NO root at all, foreign item, with and without variables / documents / collections) x 64
    expression classes (leading '/', '//', axes, root(), id(), position(), context-dependent functions ...);
  * GAP CHARACTERS of Tokens.tla: one character per Unicode general category and every white-space-like character in
    every gap, in the middle of every token and after its first character;
  * numeric boundary classes for every parameter (INF, -INF, NaN, -0, 1.7e308, 5e-324) and fn:format-number over
    numeric boundary values x one picture per picture feature (AtomicPool.tla, action Format);
  * the PUMP family of Tokens.tla: head unit^n mid post^n tail for n in {1, 30, 200} (unterminated string
    literals of both quote kinds, comments, digit / dot / name / exponent runs, nesting, long prefixes ...):
    10 s watchdog, and for pumps with inv = TRUE the outcome class must not depend on n;
  * the seed expressions of Tokens.tla (FLWOR, quantifiers, typed array/map tests, inline functions, arrow,
    lookup ...) with ALL their one-token mutations, and the stress vectors (deep nesting, long literals);
  * every path of the ParserLife graph (parse histories of <= MaxCalls calls over 10 source classes
    on 2 instances) is replayed on real parser instances: outcome kind = the spec's, outcome
    identity (tree text / error code) = a fresh instance's (the culprit earlier call is searched by
    replaying pairs on fresh instances), cursor attributes reset.
Binding B
  * this module is also a pytest plugin (`-p engine.props.c03`): it wraps XPath1Parser.parse and
    records call/ret events of the repository's own test-suite; the events (one trace per test
    class) and the replayed histories are validated by TLC against TraceParserLife.

Out of scope / implementation defined: which code is raised; values; non-string sources;
resource exhaustion (MemoryError under the 8 GB worker limit is counted, not judged).
"""
from __future__ import annotations

import collections
import hashlib
import json
import os
import re
import signal
import subprocess
import sys
import time

from .. import core, tla

LEVEL = 'model_checking'

VERSIONS = ['1.0', '2.0', '3.0', '3.1']
CLASS_VERSION = {'XPath1Parser': '1.0', 'XPath2Parser': '2.0', 'XPath30Parser': '3.0', 'XPath31Parser': '3.1'}
DOC_XML = '<a x="1"><b>t</b><a/></a>'
VARIABLES = {'x': 1, 'a': 'u'}
HANG_SECONDS = 10
HANG_LIMIT = 6      # after this many hangs (all workers together) the remaining cases are skipped: a hang
                    # regression is reported from the first witnesses instead of costing 10 s per case
PROCS = int(os.environ.get('C03_PROCS', '16'))

ALL_FIELDS = {"tokens", "next_match", "token", "next_token"}
SOURCE_CLASSES = ["ok", "ok2", "lex", "syntax", "syntaxend", "comment", "unkfn", "type", "prefix", "arrowfail"]
# binding table: source class -> text (per version where they differ)
SOURCE_TEXT = {
    'ok': 'a/b[1]', 'ok2': 'count(//a) + 2', 'lex': '1 ~ 2', 'syntax': '1 + ) 2', 'syntaxend': '( 1 +',
    'comment': '1 (: abc', 'unkfn': 'foo(1)', 'type': {'1.0': "sum('a')", '*': "1 + 'a'"}, 'prefix': 'p:a',
    'arrowfail': '1 => unknown:f()',
}

TIERS = {
    'quick': dict(token_runs=[('all3', 'all', 3)], expr_thin=12, rep_thin=6,
                  life=dict(Instances={1, 2}, MaxCalls=3), trace_versions=['3.1'], max_dev=1, static_thin=4),
    'thorough': dict(token_runs=[('all3', 'all', 3), ('core4', 'core', 4)], expr_thin=1, rep_thin=3,
                     life=dict(Instances={1, 2}, MaxCalls=3), trace_versions=VERSIONS, max_dev=2, static_thin=1),
}


# =========================================================================================
# shared helpers (harness + pytest plugin)

def source_text(cls_name: str, version: str) -> str:
    t = SOURCE_TEXT[cls_name]
    if isinstance(t, dict):
        return t.get(version, t['*'])
    return t


def fingerprint(e: BaseException) -> dict:
    """(exception class, raising function, token symbol): one root cause = one fingerprint."""
    frames = []
    tb = e.__traceback__
    while tb is not None:
        frames.append(tb.tb_frame)
        tb = tb.tb_next
    ep = [f for f in frames if '/elementpath/' in f.f_code.co_filename.replace('\\', '/')]
    exc = type(e).__name__

    def sym_of(f):
        s = f.f_locals.get('self')
        v = getattr(s, 'symbol', None) if s is not None else None
        return v if isinstance(v, str) else None

    if isinstance(e, RecursionError):
        c = collections.Counter(s for s in (sym_of(f) for f in ep[-300:]) if s)
        if not c:   # the recursion is inside a helper: take the innermost token below it
            c = collections.Counter([s for s in (sym_of(f) for f in reversed(ep)) if s][:1])
        return {'exc': exc, 'where': 'recursion', 'sym': c.most_common(1)[0][0] if c else None}
    if not ep:
        f = frames[-1] if frames else None
        return {'exc': exc, 'where': getattr(f.f_code, 'co_qualname', f.f_code.co_name) if f else None, 'sym': None}
    f = ep[-1]
    for g in reversed(ep):      # an IndexError/KeyError raised inside Token.__getitem__ belongs to its caller
        if g.f_code.co_name not in ('__getitem__', '__iter__', '__len__', '__next__', '__contains__'):
            f = g
            break
    sym = None
    for g in reversed(ep):
        sym = sym_of(g)
        if sym:
            break
    return {'exc': exc, 'where': getattr(f.f_code, 'co_qualname', f.f_code.co_name), 'sym': sym}


_SENT = object()


def cursor_unreset_fields(parser) -> list[str]:
    """Projection of the parse cursor through public attributes: which fields are NOT reset."""
    bad = []
    try:
        if next(parser.tokens, _SENT) is not _SENT:
            bad.append('tokens')
    except Exception:
        bad.append('tokens')
    if getattr(parser, 'next_match', None) is not None:
        bad.append('next_match')
    if getattr(getattr(parser, 'token', None), 'symbol', None) != '(start)':
        bad.append('token')
    if getattr(getattr(parser, 'next_token', None), 'symbol', None) != '(start)':
        bad.append('next_token')
    return bad


# =========================================================================================
# pytest plugin part (binding B recorder).  Active only when C03_TRACE_OUT is set.

_REC: dict = {}

CONFIG_ATTRS = ('namespaces', 'strict', 'compatibility_mode', 'xsd_version', 'default_namespace',
                'function_namespace', 'variable_types', 'base_uri', 'schema', 'default_collation',
                'document_types', 'collection_types', 'default_collection_type', 'decimal_formats',
                'defuse_xml')


def _config_key(p, keep: list, seen: set) -> str:
    items = []
    for a in CONFIG_ATTRS:
        try:
            v = getattr(p, a)
        except Exception as ex:   # noqa
            v = 'exc:' + type(ex).__name__
        if a == 'schema' and v is not None:
            keep.append(v)
            v = type(v).__name__ + '@%x' % id(v)
        items.append((a, repr(v)))
    for k, v in sorted(vars(p).items()):
        if k not in CONFIG_ATTRS and not k.startswith('_'):
            items.append((k, repr(v)))
    st = tuple(p.symbol_table.values())
    h = hash(tuple(map(id, st)))
    if h not in seen:
        seen.add(h)
        keep.append(st)
    items.append(('symbols', h))
    return hashlib.sha1(repr(items).encode()).hexdigest()[:12]


def _install_recorder(path: str) -> None:
    from elementpath.xpath1 import XPath1Parser
    from elementpath.exceptions import ElementPathError
    orig = XPath1Parser.parse
    fh = open(path, 'w')
    keep: list = []
    seen: set = set()
    inst_ids: dict = {}
    depth: dict = {}
    classes: dict = {}
    _REC.update(fh=fh, test='(collect)')

    def parse(self, source):
        oid = id(self)
        if depth.get(oid, 0) or not isinstance(source, str):
            depth[oid] = depth.get(oid, 0) + 1
            try:
                return orig(self, source)
            finally:
                depth[oid] -= 1
        if oid not in inst_ids:
            keep.append(self)
            inst_ids[oid] = len(inst_ids) + 1
        pid = inst_ids[oid]
        depth[oid] = 1
        try:
            key = (type(self).__module__ + '.' + type(self).__qualname__, _config_key(self, keep, seen), source)
        except Exception as ex:   # noqa
            key = ('?', type(ex).__name__, source)
        k = classes.setdefault(key, len(classes) + 1)
        fh.write(json.dumps({'e': 'call', 'test': _REC['test'], 'p': pid, 's': k, 'cls': key[0],
                             'cfg': key[1], 'text': source}) + '\n')
        rec = {'e': 'ret', 'test': _REC['test'], 'p': pid, 's': k}
        try:
            t = orig(self, source)
            try:
                ident = hashlib.sha1(t.tree.encode()).hexdigest()[:12]
            except Exception as ex:   # noqa
                ident = '?' + type(ex).__name__
            rec.update(k='value', coded=False, v='tree:' + ident)
            return t
        except ElementPathError as ex:
            code = getattr(ex, 'code', None)
            rec.update(k='err', coded=bool(code), v=str(code), exc=type(ex).__name__)
            raise
        except BaseException as ex:
            rec.update(k='escaped', coded=False, v=type(ex).__name__, **fingerprint(ex))
            raise
        finally:
            depth[oid] = 0
            bad = cursor_unreset_fields(self)
            rec.update(reset=not bad, fields=bad)
            fh.write(json.dumps(rec) + '\n')

    XPath1Parser.parse = parse


def pytest_configure(config):   # pytest hook
    out = os.environ.get('C03_TRACE_OUT')
    if out:
        _install_recorder(out)


def pytest_runtest_logstart(nodeid, location):   # pytest hook
    if _REC:
        _REC['test'] = '::'.join(nodeid.split('::')[:2])


def pytest_unconfigure(config):   # pytest hook
    if _REC.get('fh'):
        _REC['fh'].close()


# =========================================================================================
# TLC output helpers

def printed(output: str, tag: str):
    """Values printed by TLC as <<"tag", ...>> (TLC pretty-prints long values over lines)."""
    pat = re.compile(r'<<\s*"' + re.escape(tag) + r'"\s*,')
    pos = 0
    n = len(output)
    while True:
        m = pat.search(output, pos)
        if not m:
            return
        j = m.start()
        k = j
        depth = 0
        in_str = False
        while k < n:
            c = output[k]
            if in_str:
                if c == '\\':
                    k += 1
                elif c == '"':
                    in_str = False
            elif c == '"':
                in_str = True
            elif output.startswith('<<', k):
                depth += 1
                k += 1
            elif output.startswith('>>', k):
                depth -= 1
                k += 1
                if depth == 0:
                    break
            k += 1
        yield tla.parse_value(output[j:k + 1])[1:]
        pos = k + 1


def apply_mut(toks: list, m: tuple) -> list:
    """1:1 application of a TLC mutation descriptor <<op, i, tok>> (1-based) to a token list."""
    op, i, t = m[0], m[1] - 1, m[2]
    if op == 'del':
        return toks[:i] + toks[i + 1:]
    if op == 'dup':
        return toks[:i + 1] + toks[i:]
    if op == 'swap':
        r = list(toks)
        r[i], r[i + 1] = r[i + 1], r[i]
        return r
    if op == 'rep':
        r = list(toks)
        r[i] = t
        return r
    raise tla.MachineryError(f'unknown mutation op {op!r}')


# =========================================================================================
# driving the real code (workers)

class _Hang(BaseException):
    where = None


def _on_alarm(signum, frame):
    h = _Hang()
    f = frame
    while f is not None:      # innermost elementpath frame of the interrupted call
        if '/elementpath/' in f.f_code.co_filename.replace('\\', '/'):
            h.where = getattr(f.f_code, 'co_qualname', f.f_code.co_name)
            break
        f = f.f_back
    raise h


_W: dict = {}
import multiprocessing as _mp   # noqa: E402
_HANGS = _mp.get_context('fork').Value('i', 0)     # shared with the forked workers


def _note_hang(feat: dict | None = None) -> None:
    """Count a hang for the circuit breaker -- unless it is a listed known finding."""
    if feat is not None:
        jf = core.jsonable(feat)
        if any(core.match_pattern(p, jf) for p in _W.get('known', ())):
            return
    with _HANGS.get_lock():
        _HANGS.value += 1


def _lock_hygiene() -> bool:
    """An escaped exception may leave the process-wide collation lock held (C19's business); release it so
    that the NEXT case is not judged a hang because of this one."""
    lk = _W.get('lock')
    try:
        if lk is not None and lk.locked():
            lk.release()
            return True
    except Exception:   # noqa
        pass
    return False


def _too_many_hangs() -> bool:
    return _HANGS.value >= HANG_LIMIT


def _winit(legal_parse, legal_eval, known=(), limit=True):
    if limit:   # worker processes only (the main process still has to start JVMs)
        import resource
        try:
            resource.setrlimit(resource.RLIMIT_AS, (8 << 30, 8 << 30))
        except Exception:   # noqa
            pass
    signal.signal(signal.SIGALRM, _on_alarm)
    core.setup_repo_path()
    import xml.etree.ElementTree as ET
    from elementpath import XPath1Parser, XPath2Parser, XPathContext
    from elementpath.exceptions import ElementPathError
    from elementpath.xpath30 import XPath30Parser
    from elementpath.xpath31 import XPath31Parser
    doc = ET.ElementTree(ET.fromstring(DOC_XML))
    try:
        from elementpath import collations
        _W['lock'] = getattr(collations, '_locale_collate_lock', None)
    except Exception:   # noqa
        _W['lock'] = None
    _W['known'] = list(known)
    root_el = doc.getroot()
    foreign = ET.fromstring('<z><y/></z>')

    def node(path):
        ctx = XPathContext(root=doc)
        return next(iter(XPath2Parser().parse(path).select(ctx)))

    full = dict(variables=dict(VARIABLES), documents={'a': doc}, collections={'c': [doc]}, default_collection=[doc],
                text_resources={'t': 'x'})
    _W['ctx_extra'] = {
        'doc_root': lambda: XPathContext(root=doc), 'elem_root': lambda: XPathContext(root=root_el),
        'fragment_true': lambda: XPathContext(root=root_el, fragment=True),
        'fragment_false': lambda: XPathContext(root=root_el, fragment=False),
        'item_none': lambda: XPathContext(root=doc, item=None), 'item_atomic': lambda: XPathContext(root=doc, item=1),
        'item_elem': lambda: XPathContext(root=doc, item=root_el[0]), 'item_attr': lambda: XPathContext(root=doc, item=node('/a/@x')),
        'item_text': lambda: XPathContext(root=doc, item=node('/a/b/text()')),
        'noroot_atomic': lambda: XPathContext(item=1), 'noroot_elem': lambda: XPathContext(item=root_el[0]),
        'noroot_attr': lambda: XPathContext(item=node('/a/@x')), 'noroot_text': lambda: XPathContext(item=node('/a/b/text()')),
        'item_foreign': lambda: XPathContext(root=doc, item=foreign[0]),
        'no_vars': lambda: XPathContext(root=doc, variables=None, documents=None, collections=None),
        'full': lambda: XPathContext(root=doc, **full),
    }
    _W.update(
        P={'1.0': XPath1Parser, '2.0': XPath2Parser, '3.0': XPath30Parser, '3.1': XPath31Parser},
        EPE=ElementPathError, doc=doc, legal={'parse': legal_parse, 'eval': legal_eval},
        ctx={'doc': lambda: XPathContext(root=doc),
             'item': lambda: XPathContext(root=doc, item=1),
             'vars': lambda: XPathContext(root=doc, variables=dict(VARIABLES))})


def _is_legal(phase: str, shape: tuple) -> bool:
    return tla.FrozenDict(k=shape[0], coded=shape[1]) in _W['legal'][phase]


def _classify(e: BaseException):
    """exception -> (shape, identity, fingerprint|None); MemoryError -> None (not judged)."""
    if isinstance(e, _W['EPE']):
        code = getattr(e, 'code', None)
        return ('err', bool(code)), str(code), ({'exc': type(e).__name__, 'where': None, 'sym': None} if not code else None)
    if isinstance(e, MemoryError):
        return None, None, None
    if isinstance(e, _Hang):
        return ('hang', False), 'hang', {'exc': 'hang', 'where': e.where, 'sym': None}
    _lock_hygiene()
    return ('escaped', False), type(e).__name__, fingerprint(e)


def _describe(obs: list, things: list) -> None:
    """The error / description paths of an outcome: str() and repr() of the exception, str(), repr(), .source
    and .tree of a token.  They build messages from the same tokens and must not raise anything else either."""
    for label, fn in things:
        try:
            fn()
        except _Hang:
            raise
        except BaseException as e:   # noqa
            obs.append(('eval', 'describe/' + label, *_classify(e)))


def run_text(version: str, text: str, parser_kwargs: dict | None = None, contexts=None, describe: bool = True) -> list:
    """Parse `text` with a fresh parser of `version`, evaluate it if it parses.
    Returns observations (phase, detail, shape, identity, fingerprint)."""
    obs = []
    signal.alarm(HANG_SECONDS)
    try:
        phase, detail = 'parse', ''
        try:
            try:
                parser = _W['P'][version](**(parser_kwargs or {}))
                root = parser.parse(text)
            except BaseException as e:   # noqa
                obs.append(('parse', '', *_classify(e)))
                if describe and isinstance(e, _W['EPE']):
                    phase, detail = 'eval', 'describe'
                    tok = getattr(e, 'token', None)
                    things = [('str(error)', lambda: str(e)), ('repr(error)', lambda: repr(e))]
                    if tok is not None:
                        things += [('str(error.token)', lambda: str(tok)), ('repr(error.token)', lambda: repr(tok))]
                    _describe(obs, things)
                signal.alarm(0)
                return obs
            obs.append(('parse', '', ('value', False), None, None))
            phase, detail = 'eval', 'describe'
            _describe(obs, [] if not describe else [('root.source', lambda: root.source), ('root.tree', lambda: root.tree),
                            ('str(root)', lambda: str(root)), ('repr(root)', lambda: repr(root))])
            for cname in (contexts or tuple(_W['ctx'])):
                mk = _W['ctx'].get(cname) or _W['ctx_extra'][cname]
                for mode in ('evaluate', 'get_results'):
                    phase, detail = 'eval', f'{cname}/{mode}'
                    try:
                        ctx = mk()
                        if mode == 'evaluate':
                            root.evaluate(ctx)
                        else:
                            root.get_results(ctx)
                        obs.append(('eval', detail, ('value', False), None, None))
                    except _Hang:
                        raise
                    except BaseException as e:   # noqa
                        signal.alarm(0)
                        obs.append(('eval', detail, *_classify(e)))
                        signal.alarm(HANG_SECONDS)
        except _Hang as e:
            obs.append((phase, detail, *_classify(e)))
    finally:
        signal.alarm(0)
    return obs


class _Agg:
    """Per-worker aggregation of judged observations."""

    def __init__(self):
        self.stats = collections.Counter()
        self.fails: dict = {}
        self.nontrivial: set = set()     # 64-bit hashes of the distinct non-trivial (version, text) pairs
        self.samples: list = []

    def judge(self, version: str, text: str, origin: dict, parser_kwargs: dict | None = None, contexts=None,
              describe: bool = True) -> str:
        self.last_parse = None        # 'value' | 'err' when the parse outcome was legal
        if _too_many_hangs():
            self.stats['skipped_after_hangs'] += 1
            return 'skipped'
        obs = run_text(version, text, parser_kwargs, contexts, describe)
        if all(o[2] is None or _is_legal(o[0], o[2]) for o in obs) and _lock_hygiene():
            # every call returned or raised legally, yet the process-wide collation lock is still held:
            # the NEXT collation call of this process would block for ever
            self.stats['lock_left_held'] += 1
            feat = dict(kind='lock-held', phase='eval' if len(obs) > 1 else 'parse', exc=None, where='collation lock')
            case = dict(mode='text', version=version, text=text, phase=feat['phase'], detail='', origin=origin,
                        parser_kwargs=parser_kwargs)
            self.fails.setdefault(json.dumps(feat, sort_keys=True),
                                  [feat, 0, case, 'collation lock released after the call', 'locked'])[1] += 1
        for o in obs:
            if o[2] is not None and o[2][0] == 'hang':
                _lock_hygiene()
                _note_hang(escape_features('hang', o[0], o[4]))
        parsed = False
        pcode = None
        for phase, detail, shape, ident, fp in obs:
            self.stats['evaluations'] += 1
            if shape is None:
                self.stats['resource_exhausted'] += 1
                continue
            if phase == 'parse':
                parsed = shape[0] == 'value'
                pcode = ident
                if _is_legal(phase, shape):
                    self.last_parse = shape[0]
                self.stats['parse_' + shape[0]] += 1
            else:
                self.stats['eval_' + shape[0]] += 1
            if not _is_legal(phase, shape):
                kind = 'uncoded' if shape[0] == 'err' else shape[0]
                feat = escape_features(kind, phase, fp)
                feat['ctx'] = detail.split('/')[0] if phase == 'eval' else None     # dynamic-context class
                key = json.dumps(feat, sort_keys=True)
                ent = self.fails.get(key)
                case = dict(mode='text', version=version, text=text, phase=phase, detail=detail, origin=origin,
                            token_symbol=fp['sym'], parser_kwargs=parser_kwargs)
                if ent is None:
                    self.fails[key] = [feat, 1, case, f'member of LegalShapes({phase})', [shape[0], ident]]
                else:
                    ent[1] += 1
                    if len(text) < len(ent[2]['text']):
                        ent[2] = case
        if parsed or (pcode and 'XPST0003' not in pcode):
            self.nontrivial.add(hash((version, text)))
        if parsed and len(self.samples) < 2:
            ev = collections.Counter(o[2][0] for o in obs[1:] if o[2])
            self.samples.append(dict(version=version, text=text, origin=origin, parse='value',
                                     evaluations=dict(ev)))
        return 'value' if parsed else (pcode or '?')

    def result(self):
        return dict(self.stats), list(self.fails.values()), self.nontrivial, self.samples


def escape_features(kind: str, phase: str, fp: dict) -> dict:
    """Feature dict of an illegal outcome: (exception class, raising function, token symbol).  run() merges the
    classes that match no known finding over the token symbol."""
    return dict(kind=kind, phase=phase, exc=fp.get('exc'), where=fp.get('where'), sym=fp.get('sym'))


def render(seq: tuple) -> list[tuple[str, str]]:
    """abstract token sequence -> texts (1:1): tokens joined by one space / by nothing."""
    sp = ' '.join(seq)
    gl = ''.join(seq)
    return [('spaced', sp)] if gl == sp else [('spaced', sp), ('glued', gl)]


def seq_worker(job):
    """job: list of (seq, gclass). Judges every rendering in every parser version; also returns the
    agreement of the spec's grammar classes with the parsers (anti-vacuity, spaced layout only)."""
    agg = _Agg()
    gram = collections.Counter()
    gram_bad = []
    for seq, gclass in job:
        for layout, text in render(seq):
            if not text:
                continue
            for v in VERSIONS:
                out = agg.judge(v, text, dict(kind='tokens', seq=list(seq), layout=layout), describe=(v == '3.1'))
                if layout == 'spaced' and gclass != 'open' and out != 'skipped':
                    vn = int(v.replace('.', ''))
                    if gclass == 'ill':
                        ok = out != 'value'
                        gram['ill_rejected' if ok else 'ill_ACCEPTED'] += 1
                    elif vn >= int(gclass[1:]):
                        ok = 'XPST0003' not in out
                        gram['grammatical_accepted' if ok else 'grammatical_REJECTED'] += 1
                    else:
                        continue
                    if not ok and len(gram_bad) < 5:
                        gram_bad.append([v, text, gclass, out])
    return agg.result(), dict(gram), gram_bad


def mut_worker(job):
    """job: list of (version, text, k, [descriptors]). The text is tokenised by the parser's own tokenizer;
    descriptors address the non-space tokens."""
    agg = _Agg()
    tokenizer = _W.get('tokenizer')
    if tokenizer is None:
        p = _W['P']['3.1']()
        p.parse('1')
        tokenizer = _W['tokenizer'] = p.tokenizer
    for version, text, k, muts in job:
        toks = [m.group() for m in tokenizer.finditer(text)]
        idx = [i for i, t in enumerate(toks) if not t.isspace()]
        words = [toks[i] for i in idx]
        for m in muts:
            new_words = apply_mut(words, m)
            # re-attach the original layout: whitespace tokens stay where they were, a duplicated
            # token is separated by one space
            if m[0] == 'dup':
                i = idx[m[1] - 1]
                out = toks[:i + 1] + [' '] + toks[i:]
            elif m[0] == 'del':
                i = idx[m[1] - 1]
                out = toks[:i] + toks[i + 1:]
            else:
                out = list(toks)
                for pos, w in zip(idx, new_words):
                    out[pos] = w
            mtext = ''.join(out)
            agg.judge(version, mtext, dict(kind='mutation', expr=text, k=k, mutation=list(m)), describe=(k % 4 == 0))
    return agg.result()



# ---- function-call family (spec/ArgClass.tla) ----------------------------------------------------

ARG_CLASSES = ["attr", "elem", "untyped_bad", "untyped_ok", "empty", "wrong_str", "wrong_num", "wrong_dur",
               "wrong_numstr", "seq", "func", "map", "array", "bigneg", "hugeint", "baduri", "nul",
               "num_inf", "num_neginf", "num_nan", "num_negzero", "num_huge", "num_tiny"]
# binding table: item type -> (an expression of that type, a valid lexical form of that type)
TYPE_TABLE = {
    'xs:string': ("'a'", 'a'), 'xs:integer': ('1', '1'), 'xs:double': ('1.5e0', '1.5'), 'xs:decimal': ('1.5', '1.5'),
    'xs:float': ("xs:float('1.5')", '1.5'), 'xs:numeric': ('15', '15'), 'xs:boolean': ('true()', 'true'),
    'xs:date': ("xs:date('2000-01-01')", '2000-01-01'), 'xs:dateTime': ("xs:dateTime('2000-01-01T10:00:00')", '2000-01-01T10:00:00'),
    'xs:dateTimeStamp': ("xs:dateTime('2000-01-01T10:00:00Z')", '2000-01-01T10:00:00Z'),
    'xs:time': ("xs:time('10:00:00')", '10:00:00'), 'xs:duration': ("xs:duration('P1D')", 'P1D'),
    'xs:dayTimeDuration': ("xs:dayTimeDuration('PT1H')", 'PT1H'), 'xs:yearMonthDuration': ("xs:yearMonthDuration('P1Y')", 'P1Y'),
    'xs:QName': ("xs:QName('a')", 'a'), 'xs:anyURI': ("xs:anyURI('u')", 'u'), 'xs:anyAtomicType': ("'a'", 'a'),
    'item()': ("'a'", 'a'), 'node()': ('/a', 'a'), 'element()': ('/a', 'a'), 'map(*)': ("map{'a':1}", 'a'),
    'array(*)': ('[1, 2]', 'a'), 'function(*)': ('fn:abs#1', 'a'),
    'xs:gYear': ("xs:gYear('2000')", '2000'), 'xs:gYearMonth': ("xs:gYearMonth('2000-01')", '2000-01'),
    'xs:gMonth': ("xs:gMonth('--01')", '--01'), 'xs:gMonthDay': ("xs:gMonthDay('--01-01')", '--01-01'),
    'xs:gDay': ("xs:gDay('---01')", '---01'), 'xs:hexBinary': ("xs:hexBinary('0A')", '0A'),
    'xs:base64Binary': ("xs:base64Binary('AAAA')", 'AAAA'), 'xs:language': ("'en'", 'en'), 'xs:untypedAtomic': ("xs:untypedAtomic('a')", 'a'),
}
for _t in ('long', 'int', 'short', 'byte', 'nonNegativeInteger', 'positiveInteger', 'unsignedLong', 'unsignedInt',
           'unsignedShort', 'unsignedByte'):
    TYPE_TABLE['xs:' + _t] = ('1', '1')
for _t in ('nonPositiveInteger', 'negativeInteger'):
    TYPE_TABLE['xs:' + _t] = ('-1', '-1')
CLASS_TEXT = {'attr': '/a/@x', 'elem': '/a/b', 'untyped_bad': "xs:untypedAtomic('x')", 'empty': '()', 'wrong_str': "'s'",
              'wrong_num': '1', 'wrong_numstr': "'1'", 'wrong_dur': "xs:dayTimeDuration('PT1S')", 'func': 'fn:abs#1', 'map': 'map{}', 'array': '[]',
              'bigneg': '-1000000000000', 'hugeint': '9' * 400, 'num_inf': "xs:double('INF')", 'num_neginf': "xs:double('-INF')",
              'num_nan': "xs:double('NaN')", 'num_negzero': '-0e0', 'num_huge': '1.7e308', 'num_tiny': '5e-324', 'baduri': "'http://['", 'nul': "'\x00'"}


COLL_CLASSES = ["coll_codepoint", "coll_html", "coll_uca", "coll_current", "coll_C", "coll_POSIX", "coll_Cutf8",
                "coll_unknown", "coll_empty"]
COLL_TEXT = {'coll_codepoint': 'http://www.w3.org/2005/xpath-functions/collation/codepoint',
             'coll_html': 'http://www.w3.org/2005/xpath-functions/collation/html-ascii-case-insensitive',
             'coll_uca': 'http://www.w3.org/2013/collation/UCA?lang=de', 'coll_C': 'C', 'coll_POSIX': 'POSIX',
             'coll_Cutf8': 'C.utf8', 'coll_unknown': 'http://example.org/unknown-collation', 'coll_empty': ''}


def collation_uri(cls: str) -> str:
    if cls == 'coll_current':      # the locale that is active for LC_COLLATE right now, in this process
        import locale
        return locale.setlocale(locale.LC_COLLATE, None)
    return COLL_TEXT[cls]


def split_signature(sig: str) -> list[str]:
    """'function(xs:string?, item()*) as xs:string' -> ['xs:string?', 'item()*'] (top-level commas only)."""
    if not sig.startswith('function('):
        raise tla.MachineryError(f'unexpected signature {sig!r}')
    depth, cur, parts = 0, '', []
    for c in sig[len('function('):]:
        if c == '(':
            depth += 1
        elif c == ')':
            if depth == 0:
                break
            depth -= 1
        if c == ',' and depth == 0:
            parts.append(cur.strip())
            cur = ''
        else:
            cur += c
    if cur.strip():
        parts.append(cur.strip())
    return parts


def export_signatures() -> list[tuple[str, list[str]]]:
    """Binding C: the live signature table of the working tree (XPath31Parser.function_signatures) plus the
    xs: constructor functions of its symbol table, as (prefixed name, parameter types)."""
    from elementpath.xpath31 import XPath31Parser
    out = []
    for (qname, arity), sig in XPath31Parser.function_signatures.items():
        ptypes = split_signature(sig)
        if ptypes and ptypes[-1] == '...':      # variadic (fn:concat): the declared arity and three more
            ptypes = ptypes[:-1]
            for extra in range(0, 4):
                out.append((qname.qname, ptypes + [ptypes[-1]] * extra))
            continue
        out.append((qname.qname, ptypes))
    for cls in set(XPath31Parser.symbol_table.values()):
        if 'constructor' in str(getattr(cls, 'label', '')) and isinstance(getattr(cls, 'symbol', None), str):
            out.append(('xs:' + cls.symbol, ['lex:xs:' + cls.symbol]))
    return sorted(set((n, tuple(p)) for n, p in out))


def render_arg(ptype: str, cls: str) -> str:
    lexical_of = ptype.startswith('lex:')        # constructor: the argument is a lexical form of the target type
    base = ptype[4:] if lexical_of else ptype
    if not base.endswith(')') and base[-1] in '?*+':
        base = base[:-1]
    elif base.endswith((')?', ')*', ')+')):
        base = base[:-1]
    if base.startswith('function(') and base != 'function(*)':
        n = len(split_signature(base))
        valid, lex = 'function(' + ', '.join(f'$p{i}' for i in range(n)) + ') { 1 }', 'a'
    else:
        if base.startswith('element('):
            base = 'element()'
        valid, lex = TYPE_TABLE.get(base, ("'a'", 'a'))
    if lexical_of:
        valid = "'" + lex + "'"
    if cls == 'valid':
        return valid
    if cls.startswith('coll_'):
        return "'" + collation_uri(cls) + "'"
    if cls == 'untyped_ok':
        return "xs:untypedAtomic('" + lex + "')"
    if cls == 'seq':
        return '(' + valid + ', ' + valid + ')'
    return CLASS_TEXT[cls]


def render_call(name: str, ptypes, args) -> str:
    return name + '(' + ', '.join(render_arg(t, c) for t, c in zip(ptypes, args)) + ')'


W3C_NS = {'fn': 'http://www.w3.org/2005/xpath-functions', 'math': 'http://www.w3.org/2005/xpath-functions/math',
          'map': 'http://www.w3.org/2005/xpath-functions/map', 'array': 'http://www.w3.org/2005/xpath-functions/array',
          'xs': 'http://www.w3.org/2001/XMLSchema', 'err': 'http://www.w3.org/2005/xqt-errors'}
OTHER_NS = 'http://example.com/other'
FORMS = ["arrow", "ref_call", "let_call", "partial", "partial_last", "apply", "lookup", "arrow_beyond", "ref_beyond",
         "apply_beyond"]
NS_CLASSES = ["rebind_math", "rebind_map", "rebind_array", "rebind_fn", "rebind_xs", "rebind_err", "unbind_all", "alias",
              "fnns_math", "fnns_other", "fnns_empty"]


def render_form(name: str, ptypes, form: str) -> str:
    """1:1 rendering of the call forms of ArgClass.tla with valid arguments."""
    a = [render_arg(t, 'valid') for t in ptypes]
    n = len(a)
    j = ', '.join
    if form == 'direct':
        return f'{name}({j(a)})'
    if form == 'arrow':
        return f'{a[0]} => {name}({j(a[1:])})'
    if form == 'ref_call':
        return f'{name}#{n}({j(a)})'
    if form == 'let_call':
        return f'let $f := {name}#{n} return $f({j(a)})'
    if form == 'partial':
        return f'{name}({j(["?"] + a[1:])})({a[0]})'
    if form == 'partial_last':
        return f'{name}({j(a[:-1] + ["?"])})({a[-1]})'
    if form == 'apply':
        return f'fn:apply({name}#{n}, [{j(a)}])'
    if form == 'lookup':
        return f"fn:function-lookup(xs:QName('{name}'), {n})({j(a)})"
    if form == 'arrow_beyond':
        return f'{a[0] if a else "1"} => {name}({j(a[1:] + ["1"])})'
    if form == 'ref_beyond':
        return f'{name}#{n + 1}'
    if form == 'apply_beyond':
        return f'fn:apply({name}#{n}, [{j(a + ["1"])}])'
    raise tla.MachineryError(f'unknown call form {form!r}')


def render_static(name: str, ptypes, static: dict) -> tuple[str, dict]:
    """(text, parser keyword arguments) of a call under a static context class of ArgClass.tla."""
    prefix, local = name.split(':', 1)
    ns, sp, kd = static['ns'], static['spelling'], static['kind']
    if kd == 'unknown_name':
        local += '-nope'
    fname = {'prefixed': f'{prefix}:{local}', 'unprefixed': local, 'eqname': 'Q{' + W3C_NS[prefix] + '}' + local}[sp]
    a = [render_arg(t, 'valid') for t in ptypes]
    if kd == 'too_many':
        a = a + ['1']
    elif kd == 'too_few':
        a = a[:-1]
    elif kd == 'zero_args':
        a = []
    if ns == 'default':
        kw = {}
    elif ns.startswith('rebind_'):
        kw = dict(namespaces={ns[7:]: OTHER_NS})
    elif ns == 'unbind_all':
        kw = dict(namespaces={p: '' for p in W3C_NS})
    elif ns == 'alias':
        kw = dict(namespaces={'zz': W3C_NS[prefix]})
    elif ns == 'fnns_math':
        kw = dict(function_namespace=W3C_NS['math'])
    elif ns == 'fnns_other':
        kw = dict(function_namespace=OTHER_NS)
    elif ns == 'fnns_empty':
        kw = dict(function_namespace='')
    else:
        raise tla.MachineryError(f'unknown static context class {ns!r}')
    return f'{fname}({", ".join(a)})', kw


def form_worker(job):
    """job: list of (name, ptypes, form | None, static | None, version)."""
    agg = _Agg()
    for name, ptypes, form, static, v in job:
        if form is not None:
            agg.judge(v, render_form(name, ptypes, form), dict(kind='call-form', function=name, form=form))
        else:
            text, kw = render_static(name, ptypes, static)
            agg.judge(v, text, dict(kind='static-context', function=name, static=dict(static)), parser_kwargs=kw,
                      contexts=('doc',))
    return agg.result()


# ---- atomic-value family (spec/AtomicPool.tla) --------------------------------------------------

POOL_LITERAL = {
    'string': "'a'", 'boolean': 'true()', 'decimal': '1.5', 'integer': '1', 'double': '1.5e0', 'float': "xs:float('1.5')",
    'anyURI': "xs:anyURI('http://a')", 'language': "xs:language('en')", 'date': "xs:date('2000-01-01')",
    'dateTime': "xs:dateTime('2000-01-01T10:00:00')", 'dateTimeStamp': "xs:dateTimeStamp('2000-01-01T10:00:00Z')",
    'time': "xs:time('10:00:00')", 'duration': "xs:duration('P1Y1D')", 'yearMonthDuration': "xs:yearMonthDuration('P1Y')",
    'dayTimeDuration': "xs:dayTimeDuration('PT1H')", 'gYear': "xs:gYear('2000')", 'gYearMonth': "xs:gYearMonth('2000-01')",
    'gMonth': "xs:gMonth('--01')", 'gMonthDay': "xs:gMonthDay('--01-01')", 'gDay': "xs:gDay('---01')",
    'hexBinary': "xs:hexBinary('0A')", 'base64Binary': "xs:base64Binary('AAAA')", 'QName': "xs:QName('xml:a')",
    'untypedAtomic': "xs:untypedAtomic('a')", 'double-NaN': "xs:double('NaN')", 'double-INF': "xs:double('INF')",
    'double-negzero': "xs:double('-0')", 'float-NaN': "xs:float('NaN')",
    'nonPositiveInteger': 'xs:nonPositiveInteger(-1)', 'negativeInteger': 'xs:negativeInteger(-1)',
}
for _t in ('normalizedString', 'token', 'NMTOKEN', 'Name', 'NCName', 'ID', 'IDREF', 'ENTITY'):
    POOL_LITERAL[_t] = f"xs:{_t}('a')"
for _t in ('long', 'int', 'short', 'byte', 'nonNegativeInteger', 'unsignedLong', 'unsignedInt', 'unsignedShort',
           'unsignedByte', 'positiveInteger'):
    POOL_LITERAL[_t] = f'xs:{_t}(1)'
POOL_USES1 = {
    'map-key': 'map{V: 1}', 'map-entry': 'map:entry(V, 1)', 'map-put': 'map:put(map{}, V, 1)', 'map-get': 'map:get(map{V: 1}, V)',
    'map-merge': 'map:merge((map{V: 1}, map{V: 2}))', 'map-contains': 'map:contains(map{V: 1}, V)',
    'map-remove': 'map:remove(map{V: 1}, V)', 'map-find': 'map:find([map{V: 1}], V)', 'map-call': 'map{V: 1}(V)',
    'map-lookup': 'map{V: 1}?(V)', 'map-keys': 'map:keys(map{V: 1})', 'array-member': '[V, V]', 'array-get-index': '[1](V)',
    'union': 'V union V', 'bar': 'V | V', 'intersect': 'V intersect V', 'except': 'V except V',
    'distinct-values': 'distinct-values((V, V))', 'index-of': 'index-of((V, V), V)', 'deep-equal': 'deep-equal((V), (V))',
    'sort': 'sort((V, V))', 'sort-key': 'sort((1, 2), (), function($x) { V })', 'min': 'min((V, V))', 'max': 'max((V, V))',
    'sum': 'sum((V, V))', 'avg': 'avg((V, V))', 'inline-arg': 'function($x) { $x }(V)',
    'dynamic-call': 'let $f := function($x as xs:anyAtomicType) { $x } return $f(V)', 'string': 'string(V)', 'data': 'data(V)',
    'boolean': 'boolean(V)', 'instance-of': 'V instance of xs:anyAtomicType', 'cast-string': 'V cast as xs:string',
    'self-eq': 'V eq V', 'string-join': "string-join((V, V), '-')", 'for-each': 'for-each((V, V), function($x) { $x })',
    'filter': 'filter((V, V), function($x) { $x = V })', 'predicate': '(V, V)[. = V]',
}
POOL_USES2 = {
    'general-eq': 'V = W', 'general-lt': 'V < W', 'value-eq': 'V eq W', 'value-lt': 'V lt W', 'value-ne': 'V ne W',
    'plus': 'V + W', 'minus': 'V - W', 'times': 'V * W', 'div': 'V div W', 'deep-equal2': 'deep-equal(V, W)',
    'index-of2': 'index-of((V), W)', 'distinct-values2': 'distinct-values((V, W))', 'sort2': 'sort((V, W))',
    'min2': 'min((V, W))', 'two-keys': 'map{V: 1, W: 2}', 'map-merge2': 'map:merge((map{V: 1}, map{W: 2}))',
    'map-get2': 'map:get(map{V: 1}, W)',
}
POOL_REP_TYPES = ['string', 'anyURI', 'boolean', 'decimal', 'integer', 'long', 'float', 'double', 'date', 'dateTime', 'time',
                  'duration', 'yearMonthDuration', 'dayTimeDuration', 'gYear', 'gYearMonth', 'gMonth', 'gMonthDay', 'gDay',
                  'hexBinary', 'base64Binary', 'QName', 'untypedAtomic', 'double-NaN', 'double-INF', 'float-NaN']
POOL_VERSIONS = ['2.0', '3.1']
_CTX_CLASSES = ['doc_root', 'elem_root', 'fragment_true', 'fragment_false', 'item_none', 'item_atomic', 'item_elem', 'item_attr',
                'item_text', 'noroot_atomic', 'noroot_elem', 'noroot_attr', 'noroot_text', 'item_foreign', 'no_vars', 'full']


def pool_text(use: str, t1: str, t2: str) -> str:
    if use == 'format-number':
        return f'format-number({NUM_VALUES[t1]}, {PICTURES[t2]})'
    tpl = POOL_USES1.get(use) or POOL_USES2[use]
    out = re.sub(r'\bV\b', lambda m: POOL_LITERAL[t1], tpl)
    if t2 != '-':
        out = re.sub(r'\bW\b', lambda m: POOL_LITERAL[t2], out)
    return out


def pool_worker(job):
    """job: list of (use, t1, t2, version).  The expressions are constant: one dynamic context is enough."""
    agg = _Agg()
    for use, t1, t2, v in job:
        agg.judge(v, pool_text(use, t1, t2), dict(kind='atomic-pool', use=use, types=[t1, t2]), contexts=('doc',))
    return agg.result()


CTX_EXPR = {
    'slash': '/', 'slash-step': '/a', 'dslash-step': '//a', 'dslash-star': '//*', 'dslash-pred': '//b[1]', 'paren-dslash': '(//a)[1]',
    'dot': '.', 'dotdot': '..', 'child': 'child::a', 'descendant': 'descendant::b', 'descendant-or-self': 'descendant-or-self::node()',
    'parent': 'parent::*', 'ancestor': 'ancestor::*', 'ancestor-or-self': 'ancestor-or-self::node()', 'following': 'following::*',
    'following-sibling': 'following-sibling::*', 'preceding': 'preceding::*', 'preceding-sibling': 'preceding-sibling::node()',
    'attribute': '@x', 'self': 'self::a', 'namespace': 'namespace::*', 'relative-dslash': './/b', 'root-fn': 'root()',
    'root-fn-dot': 'root(.)', 'id-fn': "id('a')", 'idref-fn': "idref('a')", 'position': 'position()', 'last': 'last()',
    'name': 'name()', 'local-name': 'local-name()', 'string': 'string()', 'number': 'number()', 'string-length': 'string-length()',
    'normalize-space': 'normalize-space()', 'lang': "lang('en')", 'base-uri': 'base-uri()', 'document-uri': 'document-uri(/)',
    'path': 'path()', 'has-children': 'has-children()', 'innermost': 'innermost(//a)', 'outermost': 'outermost(//a)',
    'data': 'data()', 'nilled': 'nilled()', 'generate-id': 'generate-id()', 'variable': '$x', 'undefined-variable': '$undefined',
    'doc': "doc('a')", 'doc-available': "doc-available('a')", 'collection': 'collection()', 'uri-collection': 'uri-collection()',
    'unparsed-text': "unparsed-text('t')", 'current-dateTime': 'current-dateTime()', 'implicit-timezone': 'implicit-timezone()',
    'default-collation': 'default-collation()', 'static-base-uri': 'static-base-uri()', 'count-dslash': 'count(//a)',
    'union-paths': '//a | /a/b', 'predicate-position': 'a[position() = last()]', 'arith-path': '1 + //a',
    'for-path': 'for $n in //a return name($n)', 'simple-map': '//a ! name()', 'context-item-arith': '. + 1',
    'element-with-id': "element-with-id('a')", 'lookup-dot': '?x',
}
NUM_VALUES = {'zero': '0', 'one': '1', 'minus-one': '-1', 'decimal': '1234.5678', 'small': '0.000012', 'large': '12345678901234567890.5',
              'integer-huge': '9' * 400, 'double': '1.5e0', 'double-huge': '1.7e308', 'double-tiny': '5e-324', 'INF': "xs:double('INF')",
              'minus-INF': "xs:double('-INF')", 'NaN': "xs:double('NaN')", 'minus-zero': '-0e0', 'float-INF': "xs:float('INF')", 'empty': '()'}
PICTURES = {'digit': "'0'", 'optional': "'#'", 'grouping': "'#,##0'", 'fraction': "'0.00'", 'optional-fraction': "'0.0##'", 'percent': "'0%'",
            'per-mille': "'0\u2030'", 'exponent': "'0.0e0'", 'exponent-wide': "'00.000e00'", 'exponent-optional': "'#.#e0'",
            'sub-pictures': "'0.0;(0.0)'", 'prefix-suffix': "'[0.0]'", 'named-format': "'0.0', 'de'", 'unknown-format': "'0.0', 'nope'",
            'malformed-two-points': "'0.0.0'", 'malformed-empty': "''", 'only-passive': "'abc'"}


def ctx_worker(job):
    """job: list of (context class, expression class, version)  (spec/DynContext.tla)."""
    agg = _Agg()
    for c, e, v in job:
        agg.judge(v, CTX_EXPR[e], dict(kind='dynamic-context', context=c, expression=e), contexts=(c,))
    return agg.result()


def gap_worker(job):
    """job: list of (seed tokens, char record, place).  Tokens are joined by one space; the character goes into
    every gap (replacing the space / at both ends), into the middle of every token, or after its first character."""
    agg = _Agg()
    for seed, ch, place in job:
        c = chr(ch['cp'])
        texts = []
        if place == 'gap':
            for i in range(len(seed) + 1):
                left, right = ' '.join(seed[:i]), ' '.join(seed[i:])
                texts.append(left + c + right)
                texts.append(left + ' ' + c + ' ' + right)
        else:
            for i, t in enumerate(seed):
                k = len(t) // 2 if place == 'middle' else 1
                if 0 < k <= len(t) and (place == 'after-first' or len(t) > 1):
                    texts.append(' '.join(list(seed[:i]) + [t[:k] + c + t[k:]] + list(seed[i + 1:])))
        for text in texts:
            for v in VERSIONS:
                agg.judge(v, text, dict(kind='gap-char', seed=' '.join(seed), char=ch['id'], codepoint=ch['cp'], place=place),
                          contexts=('vars',))
    return agg.result()


def call_worker(job):
    """job: list of (name, ptypes, args, calls, version); calls = 2: the call is made twice in a row in this
    process.  A call whose LAST argument is a collation class is also made without that argument on a parser
    configured with default_collation = that collation."""
    agg = _Agg()
    for name, ptypes, args, ncalls, v in job:
        text = render_call(name, ptypes, args)
        origin = dict(kind='call', function=name, parameter_types=list(ptypes), argument_classes=list(args), calls=ncalls)
        for _ in range(ncalls):
            agg.judge(v, text, origin)
        if ncalls == 2 and args and args[-1].startswith('coll_') and v != '1.0':
            text2 = render_call(name, ptypes[:-1], args[:-1])
            for _ in range(2):
                agg.judge(v, text2, dict(origin, default_collation=args[-1]),
                          parser_kwargs=dict(default_collation=collation_uri(args[-1])))
    return agg.result()


def pump_text(p: dict, n: int) -> str:
    return p['head'] + p['unit'] * n + p['mid'] + p['post'] * n + p['tail']


def pump_worker(job):
    """job: list of (pump, counts, version).  Every text is judged (legal outcome, 10 s watchdog); for pumps
    with inv = TRUE the class of the parse outcome must not depend on the count (PumpLaw of Tokens.tla)."""
    agg = _Agg()
    for p, counts, v in job:
        classes = {}
        for n in counts:
            agg.judge(v, pump_text(p, n), dict(kind='pump', pump=p['id'], n=n))
            classes[n] = agg.last_parse
        base = classes.get(min(counts))
        if p['inv'] and base is not None:
            for n in counts:
                if classes[n] is not None and classes[n] != base:
                    feat = dict(kind='pump-class', pump=p['id'], version=v, base=base, pumped=classes[n])
                    case = dict(mode='text', version=v, text=pump_text(p, n), phase='parse', detail='', origin=dict(kind='pump', pump=p['id'], n=n))
                    agg.fails.setdefault(json.dumps(feat, sort_keys=True), [feat, 0, case, base, classes[n]])[1] += 1
    for ent in agg.fails.values():
        if len(ent[2]['text']) > 400:
            ent[2]['text_len'] = len(ent[2]['text'])
    return agg.result()


def stress_worker(job):
    agg = _Agg()
    for vec in job:
        text = vec['pre'] * vec['n'] + vec['mid'] + vec['post'] * vec['n'] + vec['tail']
        for v in VERSIONS:
            agg.judge(v, text, dict(kind='stress', vector=dict(vec)))
    # keep replay files small: a stress text is described by its vector
    for ent in agg.fails.values():
        if len(ent[2]['text']) > 300:
            ent[2]['text_len'] = len(ent[2]['text'])
    return agg.result()


def seed_worker(job):
    """job: list of (k, seed tokens, [descriptors]); the seed itself and every mutation, joined by one space."""
    agg = _Agg()
    for k, seed, muts in job:
        for m in [None] + list(muts):
            toks = list(seed) if m is None else apply_mut(list(seed), m)
            text = ' '.join(toks)
            for v in VERSIONS:
                agg.judge(v, text, dict(kind='seed', seed=' '.join(seed), mutation=list(m) if m else None))
    return agg.result()


# ---- parse histories (ParserLife graph paths) -------------------------------------------

def _parse_outcome(parser, text):
    EPE = _W['EPE']
    signal.alarm(HANG_SECONDS)
    try:
        try:
            t = parser.parse(text)
            out = ('value', False, t.tree, None)
        except EPE as e:
            code = getattr(e, 'code', None)
            out = ('err', bool(code), str(code), None)
        except _Hang as e:
            out = ('hang', False, 'hang', {'exc': 'hang', 'where': e.where, 'sym': None})
            _note_hang(escape_features('hang', 'parse', out[3]))
        except BaseException as e:   # noqa
            out = ('escaped', False, type(e).__name__, fingerprint(e))
    finally:
        signal.alarm(0)
    return out


def history_worker(job):
    """job: (version, histories, record_trace) with history = [(p, src_class, expected_kind), ...]."""
    version, histories, record = job
    cls = _W['P'][version]
    fresh = {}
    stats = collections.Counter()
    fails: dict = {}
    traces = []
    samples = []

    def fail(feat, case, exp, obs):
        key = json.dumps(feat, sort_keys=True)
        if key in fails:
            fails[key][1] += 1
        else:
            fails[key] = [feat, 1, case, exp, obs]

    for sc in SOURCE_CLASSES:
        fresh[sc] = _parse_outcome(cls(), source_text(sc, version))
        stats['evaluations'] += 1
    for h in histories:
        if _too_many_hangs():
            stats['skipped_after_hangs'] += 1
            continue
        insts: dict = {}
        events = []
        hist_desc = [[p, sc] for p, sc, _ in h]
        for n, (p, sc, exp_kind) in enumerate(h):
            if p not in insts:
                insts[p] = cls()
            parser = insts[p]
            text = source_text(sc, version)
            out = _parse_outcome(parser, text)
            bad = cursor_unreset_fields(parser)
            stats['evaluations'] += 1
            stats['history_calls'] += 1
            case = dict(mode='history', version=version, history=hist_desc, upto=n + 1)
            reported = False
            if out[:3] != fresh[sc][:3]:
                # history dependence: find the earlier call that alone reproduces it on fresh instances
                culprit = 'combination'
                for q, c in hist_desc[:n]:
                    p1 = cls()
                    _parse_outcome(p1, source_text(c, version))
                    p2 = p1 if q == p else cls()
                    stats['evaluations'] += 2
                    if _parse_outcome(p2, text)[:3] == out[:3]:
                        culprit = c if q == p else c + '@other-instance'
                        break
                feat = dict(kind='history', version=version, src_class=sc, culprit=culprit,
                            fresh=fresh[sc][0], observed=out[0])
                if out[3]:
                    feat.update(exc=out[3]['exc'], where=out[3]['where'])
                fail(feat, case, list(fresh[sc][:3]), list(out[:3]))
                reported = True
            elif out[0] in ('escaped', 'hang'):
                fail(escape_features(out[0], 'parse', out[3]), case, 'member of LegalShapes(parse)', list(out[:3]))
                reported = True
            elif out[0] != exp_kind:
                fail(dict(kind='class-outcome', version=version, src_class=sc, expected=exp_kind, observed=out[0],
                          first_call=(n == 0)), case, exp_kind, list(out[:3]))
            if bad:
                fail(dict(kind='cursor', field=bad[0], after=out[0]), case, 'cursor reset', bad)
                reported = True
            if record:
                ident = out[2] if out[0] != 'value' else 'tree:' + hashlib.sha1(out[2].encode()).hexdigest()[:12]
                events.append({'e': 'call', 'p': p, 's': SOURCE_CLASSES.index(sc) + 1})
                events.append({'e': 'ret', 'p': p, 's': SOURCE_CLASSES.index(sc) + 1, 'k': out[0], 'coded': out[1],
                               'v': ident, 'reset': not bad, 'fields': bad, 'text': text, 'reported': reported,
                               **({} if out[3] is None else out[3])})
        stats['histories'] += 1
        if record:
            traces.append(events)
        if len(samples) < 1 and len(h) == 3 and h[0][2] == 'err' and h[1][2] == 'value' and h[0][0] != h[2][0] \
                and VERSIONS.index(version) == len(h[2][1]) % 4:
            samples.append(dict(version=version, history=[dict(instance=p, source_class=sc, text=source_text(sc, version),
                                                               spec_outcome=k) for p, sc, k in h],
                                observed='each outcome and tree/code equal to a fresh instance, cursor reset'))
    return dict(stats), list(fails.values()), traces, samples


# =========================================================================================
# reporting

def report(chk, ent, what=''):
    feat, cnt, case, exp, obs = ent
    chk.fail(feat, case, exp, obs, what=what or str(case.get('text', case.get('history', '')))[:160])
    if cnt > 1:
        jf = core.jsonable(feat)
        for idx, kf in enumerate(chk.known):
            if core.match_pattern(kf['fingerprint'], jf):
                chk.known_hits[idx] = chk.known_hits.get(idx, 0) + cnt - 1
                break


def merge_fails(all_fails: dict, fails: list):
    for ent in fails:
        key = json.dumps(core.jsonable(ent[0]), sort_keys=True)
        cur = all_fails.get(key)
        if cur is None:
            all_fails[key] = list(ent)
        else:
            cur[1] += ent[1]
            t_new, t_old = ent[2].get('text'), cur[2].get('text')
            if t_new is not None and t_old is not None and len(t_new) < len(t_old):
                cur[2], cur[3], cur[4] = ent[2], ent[3], ent[4]


def chunks(items: list, n: int) -> list[list]:
    k = max(1, (len(items) + n - 1) // n)
    return [items[i:i + k] for i in range(0, len(items), k)]


# =========================================================================================
# the check

def start_suite(chk) -> tuple:
    out = os.path.join(chk.scratch, 'suite_events.ndjson')
    log = os.path.join(chk.scratch, 'suite_pytest.log')
    env = dict(os.environ)
    env['C03_TRACE_OUT'] = out
    env['PYTHONPATH'] = core.REPO + os.pathsep + core.VERIF
    env.pop('PYTEST_ADDOPTS', None)
    cmd = [sys.executable, '-m', 'pytest', '-q', '-p', 'no:cacheprovider', '-p', 'engine.props.c03', 'tests']
    try:
        import pytest_timeout  # noqa: F401
        cmd.insert(4, '--timeout=60')     # a hanging parse fails its test instead of blocking the run
    except ImportError:
        pass
    fh = open(log, 'w')
    p = subprocess.Popen(cmd, cwd=core.REPO, env=env, stdout=fh, stderr=subprocess.STDOUT)
    return p, out, log, fh


def run(chk: core.Check) -> None:
    core.setup_repo_path()
    tier = TIERS[chk.tier]
    chk.assumptions += [
        'outcome classes and their legality come from spec/Outcome.tla (sets printed by TLC); error codes are not compared',
        'token alphabet, grammar classes and mutation descriptors come from spec/Tokens.tla; rendering = join by one space / by nothing',
        'source class of a parse = (parser class, parser configuration fingerprint, source text); non-string sources are not recorded',
        'hang = no return within 10 s (SIGALRM); MemoryError under an 8 GB address-space limit is counted, not judged',
        'cursor projection uses the public attributes tokens, next_match, token.symbol, next_token.symbol',
        'the test-suite is run once under the recording plugin; its own pass/fail verdicts are not used',
    ]
    t_start = time.time()
    suite_proc, suite_out, suite_log, suite_fh = start_suite(chk)

    all_fails: dict = {}
    stats = collections.Counter()
    nontrivial: set = set()

    # ---- 1. Tokens: laws, oracle sets, alphabet, apply vectors -------------------------
    wd = os.path.join(chk.scratch, 'tokens')
    base = dict(Seed=chk.seed % 1000, ExprThin=tier['expr_thin'], RepThin=tier['rep_thin'])
    cfg = tla.cfg_text(dict(Alphabet={"a", "1", "'s'", "+", "/", "(", ")", "$", "=", "lt", ".", "(:"}, MaxLen=3, **base),
                       invariants=['TypeOK', 'GrammarLaws', 'Monotone', 'MutationLaws', 'ApplyVectors'])
    r = tla.require_ok(tla.run_tlc('Tokens', cfg, wd, workers=1), 'Tokens/laws')
    chk.model('Tokens/laws', r)
    try:
        legal_parse = next(printed(r.output, 'legal_parse'))[0]
        legal_eval = next(printed(r.output, 'legal_eval'))[0]
        all_tokens = list(next(printed(r.output, 'all_tokens'))[0])
        core_tokens = set(next(printed(r.output, 'core_tokens'))[0])
    except StopIteration:
        raise tla.MachineryError('Tokens/laws did not print the oracle sets')
    if not legal_parse or not legal_eval or len(all_tokens) < 20:
        raise tla.MachineryError('empty oracle sets')
    n_apply = 0
    for seq, pairs in printed(r.output, 'apply'):
        for m, expected in pairs:
            n_apply += 1
            if tuple(apply_mut(list(seq), m)) != tuple(expected):
                raise tla.MachineryError(f'harness apply_mut disagrees with Tokens!Apply on {seq} {m}')
    if n_apply < 50:
        raise tla.MachineryError('no apply vectors printed')
    chk.coverage['apply_vectors_checked'] = n_apply
    chk.coverage['legal_shapes'] = dict(parse=core.jsonable(legal_parse), eval=core.jsonable(legal_eval))
    initargs = (legal_parse, legal_eval, [k['fingerprint'] for k in chk.known])

    # ---- 2. Tokens: every sequence, replayed -------------------------------------------
    gram_total = collections.Counter()
    gram_bad_all = []
    gclass_counts = collections.Counter()
    for name, alpha, maxlen in tier['token_runs']:
        wd = os.path.join(chk.scratch, 'tokens_' + name)
        dot = os.path.join(wd, 'g.dot')
        alphabet = set(all_tokens) if alpha == 'all' else core_tokens
        cfg = tla.cfg_text(dict(Alphabet=alphabet, MaxLen=maxlen, **base), invariants=['TypeOK', 'GrammarLaws', 'Monotone'])
        r = tla.require_ok(tla.run_tlc('Tokens', cfg, wd, dump_dot=dot, workers=min(PROCS, 8)), f'Tokens/{name}')
        chk.model(f'Tokens/{name}', r)
        t0 = time.time()
        g = tla.load_dot(dot)
        os.remove(dot)
        n_edges = len(g.edges)
        if any(a != 'AppendTok' for _, _, a, _ in g.edges[:1000]):
            raise tla.MachineryError('unexpected action in Tokens graph')
        seqs = [(st['seq'], st['gclass']) for st in g.states.values()]
        del g
        if len(tier['token_runs']) > 1 and alpha != 'all':
            seqs = [x for x in seqs if len(x[0]) > 3]    # the shorter ones are covered by the full-alphabet run
        seqs.sort()
        t_load = time.time() - t0
        t0 = time.time()
        for _, gc in seqs:
            gclass_counts[gc] += 1
        results = core.pool_map(seq_worker, chunks(seqs, PROCS * 8), procs=PROCS, initializer=_winit, initargs=initargs)
        for (st, fails, nontriv, samples), gram, gram_bad in results:
            stats.update(st)
            merge_fails(all_fails, fails)
            nontrivial |= nontriv
            gram_total.update(gram)
            gram_bad_all += gram_bad
            for s in samples[:1]:
                chk.sample(s, cap=4)
        chk.add('transitions', n_edges)
        print(f'  Tokens/{name}: states={r.distinct} tlc={r.wall_s:.1f}s load={t_load:.1f}s replay={time.time() - t0:.1f}s', flush=True)
    chk.coverage['grammar_classes_tlc'] = dict(gclass_counts)
    chk.coverage['grammar_vs_parsers'] = dict(gram_total)
    n_gram = sum(v for k, v in gclass_counts.items() if k.startswith('g'))
    if not n_gram or not gclass_counts.get('ill'):
        raise tla.MachineryError('vacuous token space: no grammatical or no ungrammatical sequence reachable')
    if (not gram_total.get('grammatical_accepted') or not gram_total.get('ill_rejected')) and not _too_many_hangs():
        raise tla.MachineryError(f'binding broken: parsers accept no grammatical / reject no ill-formed sequence {dict(gram_total)}')
    if gram_total.get('grammatical_REJECTED') or gram_total.get('ill_ACCEPTED'):
        chk.note(f'grammar classes of Tokens.tla vs parsers disagree (C04 territory, not judged here): '
                 f'{dict(gram_total)} e.g. {gram_bad_all[:5]}')

    # ---- 2b. ArgClass: every (function, parameter position, argument class) -------------------
    sigs = export_signatures()
    if len(sigs) < 100:
        raise tla.MachineryError(f'only {len(sigs)} function signatures exported')
    gen_a = os.path.join(chk.scratch, 'gen_args')
    os.makedirs(gen_a, exist_ok=True)
    with open(os.path.join(gen_a, 'C03ArgPlan.tla'), 'w') as fh:
        fh.write('---- MODULE C03ArgPlan ----\n(* generated: arities of the exported signatures (binding C) *)\n'
                 'EXTENDS Naturals, Sequences, TLC\nCONSTANTS Classes, CollClasses, MaxDev, Forms, NsClasses, Seed, StaticThin\nVARIABLES sig, args, calls, form, static\n')
        fh.write('GenArity == <<' + ', '.join(str(len(p)) for _, p in sigs) + '>>\n')
        fh.write('GenNames == <<' + ', '.join(tla.to_tla(n) for n, _ in sigs) + '>>\n')
        fh.write('GenPrefixes == <<' + ', '.join(tla.to_tla(n.split(':')[0]) for n, _ in sigs) + '>>\n')
        fh.write('INSTANCE ArgClass WITH Arity <- GenArity, Names <- GenNames, Prefixes <- GenPrefixes\n')
        fh.write('ASSUME PrintPlanSize == PrintT(<<"plan_size_1", PlanSize1, PlanSizeColl, PlanSizeForms, PlanSizeStatic>>)\n====\n')
    wd = os.path.join(chk.scratch, 'args')
    dot = os.path.join(wd, 'g.dot')
    cfg = tla.cfg_text(dict(Classes=set(ARG_CLASSES), CollClasses=set(COLL_CLASSES), MaxDev=tier['max_dev'],
                            Forms=set(FORMS), NsClasses=set(NS_CLASSES), Seed=chk.seed % 1000, StaticThin=tier['static_thin']),
                       invariants=['TypeOK', 'Bounded'])
    r = tla.require_ok(tla.run_tlc('C03ArgPlan', cfg, wd, dump_dot=dot, workers=min(PROCS, 8), extra_modules_dir=gen_a), 'ArgClass')
    chk.model('ArgClass', r)
    t0 = time.time()
    g = tla.load_dot(dot)
    os.remove(dot)
    n_edges = len(g.edges)
    plain = tla.FrozenDict(ns='default', spelling='prefixed', kind='ok')
    calls = sorted((st['sig'], tuple(st['args']), st['calls']) for st in g.states.values()
                   if st['form'] == 'direct' and st['static'] == plain)
    fcalls = sorted((st['sig'], st['form'], None) for st in g.states.values() if st['form'] != 'direct')
    scalls = sorted(((st['sig'], None, dict(st['static'])) for st in g.states.values() if st['static'] != plain),
                    key=lambda x: (x[0], sorted(x[2].items())))
    del g
    plan1, plan_coll, plan_forms, plan_static = next(printed(r.output, 'plan_size_1'), (0, 0, 0, 0))
    if len(fcalls) != plan_forms or len(scalls) != plan_static or plan_forms < len(sigs) * 5 or plan_static < len(sigs) * 20:
        raise tla.MachineryError(f'ArgClass plan incomplete: {len(fcalls)} call forms / {len(scalls)} static contexts, '
                                 f'TLC says {plan_forms} / {plan_static}')
    n1 = sum(1 for _, a, c in calls if c == 1 and sum(x != 'valid' for x in a) <= 1)
    n_again = sum(1 for _, a, c in calls if c == 2 and sum(x != 'valid' for x in a) <= 1)
    if n1 != plan1 + plan_coll or n_again != plan_coll or plan_coll < 10 * len(COLL_CLASSES) \
            or plan1 != len(sigs) + sum(len(p) for _, p in sigs) * len(ARG_CLASSES):
        raise tla.MachineryError(f'ArgClass plan incomplete: {n1} calls with <= 1 deviation, {n_again} repeated; '
                                 f'TLC says {plan1} + {plan_coll}')
    for i, a, _ in calls:
        if len(a) != len(sigs[i - 1][1]):
            raise tla.MachineryError('ArgClass graph does not match the exported table')
    cjobs = [(sigs[i - 1][0], sigs[i - 1][1], a, c, v) for i, a, c in calls for v in VERSIONS]
    cjobs.sort(key=lambda j: hash(j) % 1009)      # spread the slow calls (and the versions of one call) over the chunks
    for st, fails, nontriv, samples in core.pool_map(call_worker, chunks(cjobs, PROCS * 8), procs=PROCS,
                                                     initializer=_winit, initargs=initargs):
        stats.update(st)
        merge_fails(all_fails, fails)
        nontrivial |= nontriv
        for s in samples[:1]:
            chk.sample(s, cap=6)
    fjobs = [(sigs[i - 1][0], sigs[i - 1][1], f, st, v) for i, f, st in fcalls + scalls
             for v in (VERSIONS if f is not None else (('3.0', '3.1') if st['spelling'] == 'eqname' else ('2.0', '3.1')))]
    fjobs.sort(key=lambda j: hash((j[0], j[1], j[2], str(j[3]), j[4])) % 1009)
    for st, fails, nontriv, samples in core.pool_map(form_worker, chunks(fjobs, PROCS * 8), procs=PROCS,
                                                     initializer=_winit, initargs=initargs):
        stats.update(st)
        merge_fails(all_fails, fails)
        nontrivial |= nontriv
        for s in samples[:1]:
            chk.sample(s, cap=7)
    chk.coverage['call_forms_replayed'] = len(fcalls)
    chk.coverage['static_context_calls_replayed'] = len(scalls)
    chk.add('transitions', n_edges)
    chk.coverage['function_signatures_exported'] = len(sigs)
    chk.coverage['function_calls_replayed'] = len(calls)
    chk.coverage['collation_calls_made_twice'] = n_again
    print(f'  ArgClass: signatures={len(sigs)} calls={len(calls)} forms={len(fcalls)} static={len(scalls)} tlc={r.wall_s:.1f}s replay={time.time() - t0:.1f}s', flush=True)

    # ---- 2c. AtomicPool: every atomic type in every hashing / comparing / sorting position ------------
    t0 = time.time()
    all_types = sorted(POOL_LITERAL)
    fmt = dict(NumValues=set(NUM_VALUES), Pictures=set(PICTURES))
    nofmt = dict(NumValues={'one'}, Pictures={'digit'})
    pool_cfgs = [('all', dict(Types=set(all_types), Uses1=set(POOL_USES1), Uses2=set(POOL_USES2), **fmt))] if chk.tier == 'thorough' else \
                [('one', dict(Types=set(all_types), Uses1=set(POOL_USES1), Uses2={'value-eq'}, **fmt)),
                 ('two', dict(Types=set(POOL_REP_TYPES), Uses1={'map-key'}, Uses2=set(POOL_USES2), **nofmt))]
    pjobs = set()
    for pname, consts in pool_cfgs:
        wd = os.path.join(chk.scratch, 'pool_' + pname)
        dot = os.path.join(wd, 'g.dot')
        r = tla.require_ok(tla.run_tlc('AtomicPool', tla.cfg_text(consts, invariants=['TypeOK']), wd, dump_dot=dot,
                                       workers=min(PROCS, 8)), f'AtomicPool/{pname}')
        chk.model(f'AtomicPool/{pname}', r)
        g = tla.load_dot(dot)
        os.remove(dot)
        plan = next(printed(r.output, 'pool_plan_size'), (0,))[0]
        if len(g.states) != plan or plan < 500:
            raise tla.MachineryError(f'AtomicPool plan incomplete: {len(g.states)} states, TLC says {plan}')
        chk.add('transitions', len(g.edges))
        for st in g.states.values():
            if st['use'] != 'none':
                pjobs.add((st['use'], st['t1'], st['t2']))
        del g
    pjobs = sorted((u, a, b, v) for u, a, b in pjobs for v in (('3.0', '3.1') if u == 'format-number' else POOL_VERSIONS))
    pjobs.sort(key=lambda j: hash(j) % 1009)
    for st, fails, nontriv, samples in core.pool_map(pool_worker, chunks(pjobs, PROCS * 8), procs=PROCS,
                                                     initializer=_winit, initargs=initargs):
        stats.update(st)
        merge_fails(all_fails, fails)
        nontrivial |= nontriv
        for s in samples[:1]:
            chk.sample(s, cap=8)
    chk.coverage['atomic_pool_expressions'] = len(pjobs) // len(POOL_VERSIONS)
    print(f'  AtomicPool: expressions={len(pjobs) // len(POOL_VERSIONS)} x {len(POOL_VERSIONS)} versions  total={time.time() - t0:.1f}s', flush=True)

    # ---- 2d. DynContext: every context class x every expression class ---------------------------------
    t0 = time.time()
    wd = os.path.join(chk.scratch, 'dynctx')
    dot = os.path.join(wd, 'g.dot')
    r = tla.require_ok(tla.run_tlc('DynContext', tla.cfg_text(dict(Ctxs=set(_CTX_CLASSES), Exprs=set(CTX_EXPR)), invariants=['TypeOK']),
                                   wd, dump_dot=dot, workers=2), 'DynContext')
    chk.model('DynContext', r)
    g = tla.load_dot(dot)
    os.remove(dot)
    if len(g.states) != next(printed(r.output, 'ctx_plan_size'), (0,))[0] or len(g.states) < 500:
        raise tla.MachineryError(f'DynContext plan incomplete: {len(g.states)} states')
    xjobs = sorted((st['ctx'], st['expr'], v) for st in g.states.values() if st['ctx'] != '-' for v in VERSIONS)
    chk.add('transitions', len(g.edges))
    del g
    xjobs.sort(key=lambda j: hash(j) % 1009)
    for st, fails, nontriv, samples in core.pool_map(ctx_worker, chunks(xjobs, PROCS * 4), procs=PROCS,
                                                     initializer=_winit, initargs=initargs):
        stats.update(st)
        merge_fails(all_fails, fails)
        nontrivial |= nontriv
    chk.coverage['dynamic_context_pairs'] = len(xjobs) // len(VERSIONS)
    print(f'  DynContext: pairs={len(xjobs) // len(VERSIONS)} x {len(VERSIONS)} versions  total={time.time() - t0:.1f}s', flush=True)

    # ---- 3. ParserLife: model, self-tests, histories ------------------------------------
    wd = os.path.join(chk.scratch, 'life')
    dot = os.path.join(wd, 'g.dot')
    life_consts = dict(Sources=set(SOURCE_CLASSES), ResetFields=ALL_FIELDS, **tier['life'])
    cfg = tla.cfg_text(life_consts, invariants=['TypeOK', 'ResetAfterReturn', 'OutcomeLegal', 'HistoryIndependent'],
                       properties=['Refines'])
    r = tla.require_ok(tla.run_tlc('ParserLife', cfg, wd, dump_dot=dot, workers=min(PROCS, 8)), 'ParserLife/faithful')
    chk.model('ParserLife/faithful', r)
    g = tla.load_dot(dot)
    os.remove(dot)
    acts = collections.Counter(a for _, _, a, _ in g.edges)
    for a in ('Begin', 'Advance', 'Finish', 'Finally', 'Post', 'Return'):
        if not acts.get(a):
            raise tla.MachineryError(f'ParserLife action {a} never fired (vacuous)')
    rets = [st for st in g.states.values() if any(i['pc'] == 'ret' for i in st['inst'])]
    kinds = {i['out']['k'] for st in rets for i in st['inst'] if i['pc'] == 'ret'}
    if kinds != {'value', 'err'}:
        raise tla.MachineryError(f'ParserLife returns only {kinds} (vacuous)')
    # self-tests of the specification: dropping any field from the finally block must be found by TLC
    selftests = {}
    for f in sorted(ALL_FIELDS):
        c2 = dict(life_consts, Instances={1}, MaxCalls=2, ResetFields=ALL_FIELDS - {f})
        for inv in ('ResetAfterReturn', 'Refines', 'HistoryIndependent'):
            if inv == 'HistoryIndependent' and f != 'next_token' and chk.tier == 'quick':
                continue
            cfg = tla.cfg_text(c2, invariants=[] if inv == 'Refines' else [inv], properties=['Refines'] if inv == 'Refines' else [])
            rr = tla.run_tlc('ParserLife', cfg, os.path.join(wd, 'self'), workers=2)
            found = bool(rr.violated)
            selftests[f'{f}/{inv}'] = found
            chk.add('states', rr.distinct)
            expect = (inv != 'HistoryIndependent') or f == 'next_token'
            if found != expect:
                raise tla.MachineryError(f'ParserLife self-test: finally block without {f}: {inv} violated={found}, expected {expect}\n'
                                         + '\n'.join(rr.output.splitlines()[-15:]))
    chk.coverage['spec_selftests'] = selftests

    # enumerate the histories = paths of the graph; only Begin is a choice
    out = g.out()
    init = g.init[0]
    histories = []
    edges_walked = set()

    def walk(sid, hist):
        es = out[sid]
        if not es:
            if hist:
                histories.append(list(hist))
            return
        begins = [e for e in es if e[1] == 'Begin']
        if begins:
            if len(begins) != len(es):
                raise tla.MachineryError('ParserLife graph: Begin mixed with internal steps')
            if hist:
                histories.append(list(hist))
            for dst, a, args in begins:
                edges_walked.add((sid, dst))
                walk_call(dst, hist, args)
        else:
            raise tla.MachineryError('ParserLife graph: idle state without Begin')

    def walk_call(sid, hist, args):
        p, sc = args
        exp = None
        while True:
            es = out[sid]
            if len(es) != 1:
                raise tla.MachineryError(f'ParserLife graph: internal step not deterministic at {g.states[sid]}')
            dst, a, a_args = es[0]
            edges_walked.add((sid, dst))
            if a == 'Return':
                exp = g.states[sid]['inst'][p - 1]['out']['k']
                hist.append((p, sc, exp))
                walk(dst, hist)
                hist.pop()
                return
            sid = dst

    old_limit = sys.getrecursionlimit()
    sys.setrecursionlimit(10000)
    try:
        walk(init, [])
    finally:
        sys.setrecursionlimit(old_limit)     # the forked workers must judge RecursionError under the default limit
    histories = [h for h in histories if h]
    if len(histories) < 100:
        raise tla.MachineryError(f'only {len(histories)} histories')
    jobs = [(v, histories, v in tier['trace_versions']) for v in VERSIONS]
    hist_traces = []
    for v, (st, fails, traces, samples) in zip(VERSIONS, core.pool_map(history_worker, jobs, procs=min(4, PROCS),
                                                                       initializer=_winit, initargs=initargs)):
        stats.update(st)
        merge_fails(all_fails, fails)
        for tr in traces:
            hist_traces.append((f'history/{v}', tr))
        for s in samples:
            chk.sample(s, cap=8)
    chk.add('transitions', len(edges_walked))
    chk.coverage['histories'] = len(histories) * len(VERSIONS)
    chk.add('distinct_nontrivial', sum(1 for h in histories if len(h) > 1 and any(x[2] == 'err' for x in h[:-1])))
    print(f'  ParserLife: states={r.distinct} edges={len(g.edges)} walked={len(edges_walked)} histories={len(histories)}x4', flush=True)
    del g

    # ---- 4. the recorded test-suite run -------------------------------------------------
    try:
        suite_proc.wait(timeout=600)
    except subprocess.TimeoutExpired:
        suite_proc.kill()
        suite_proc.wait()
        chk.note('test-suite run under the recorder killed after 600 s; the events recorded so far are used')
    suite_fh.close()
    with open(suite_log) as fh:
        tail = fh.read().strip().splitlines()[-1:] or ['']
    chk.coverage['suite_run'] = tail[0][:200]
    if not os.path.exists(suite_out):
        raise tla.MachineryError(f'recorder wrote no events: {tail}')
    events = []
    with open(suite_out) as fh:
        for line in fh:
            try:
                events.append(json.loads(line))
            except ValueError:
                pass   # a torn last line
    if len(events) < 2000 and not _too_many_hangs():
        raise tla.MachineryError(f'recorder wrote only {len(events)} events: {tail}')
    by_test: dict = {}
    texts = {}
    for e in events:
        if e['e'] == 'call':
            texts[e['s']] = (e['cls'], e['text'])
        by_test.setdefault(e['test'], []).append(e)
    suite_traces = [(name, evs) for name, evs in by_test.items()]
    harvested = sorted({(CLASS_VERSION[c.rsplit('.', 1)[-1]], t) for c, t in texts.values()
                        if c.rsplit('.', 1)[-1] in CLASS_VERSION and t.strip()})
    chk.coverage['suite_parse_events'] = len(events)
    chk.coverage['harvested_expressions'] = len(harvested)

    # ---- 5. mutations of harvested expressions, chosen by TLC ---------------------------
    _winit(*initargs, limit=False)
    p31 = _W['P']['3.1']()
    p31.parse('1')
    tokenizer = p31.tokenizer
    lens = [sum(1 for m in tokenizer.finditer(t) if not m.group().isspace()) for _, t in harvested]
    gen = os.path.join(chk.scratch, 'gen')
    os.makedirs(gen, exist_ok=True)
    with open(os.path.join(gen, 'C03MutPlan.tla'), 'w') as fh:
        fh.write('---- MODULE C03MutPlan ----\n(* generated: token counts of the harvested expressions *)\nEXTENDS Tokens\n')
        fh.write('GenLens == <<' + ', '.join(map(str, lens)) + '>>\n')
        fh.write('ASSUME PrintPlan == \\A k \\in 1..Len(GenLens) : ExprChosen(k) => PrintT(<<"mut", k, Chosen(k, GenLens[k])>>)\n')
        fh.write('ASSUME PrintSeeds == \\A k \\in 1..Len(Seeds) : PrintT(<<"seedmut", k, Seeds[k], MutOps(Len(Seeds[k]), Alphabet)>>)\n')
        fh.write('ASSUME PrintStress == PrintT(<<"stress", Stress>>)\n')
        fh.write('ASSUME PrintGaps == PrintT(<<"gapchars", GapChars>>) /\\ PrintT(<<"gapseeds", GapSeeds>>) /\\ PrintT(<<"gapplaces", GapPlaces>>)\n')
        fh.write('ASSUME PrintPumps == PrintT(<<"pumps", Pumps>>) /\\ PrintT(<<"pump_counts", PumpCounts>>)\n====\n')
    cfg = tla.cfg_text(dict(Alphabet=set(all_tokens), MaxLen=0, **base), invariants=['TypeOK'])
    r = tla.require_ok(tla.run_tlc('C03MutPlan', cfg, os.path.join(chk.scratch, 'mutplan'), workers=1,
                                   extra_modules_dir=gen), 'C03MutPlan')
    chk.model('Tokens/mutation-plan', r)
    t0 = time.time()
    mjobs = []
    n_mut = 0
    t_tlc = r.wall_s
    for k, muts in printed(r.output, 'mut'):
        v, text = harvested[k - 1]
        ms = sorted(tuple(m) for m in muts)
        n_mut += len(ms)
        mjobs.append((v, text, k, ms))
    sjobs = [(k, tuple(seed), sorted(tuple(m) for m in muts)) for k, seed, muts in printed(r.output, 'seedmut')]
    stress = [dict(v) for v in next(printed(r.output, 'stress'), (frozenset(),))[0]]
    pumps = sorted((dict(v) for v in next(printed(r.output, 'pumps'), (frozenset(),))[0]), key=lambda p: p['id'])
    pump_counts = sorted(next(printed(r.output, 'pump_counts'), (frozenset(),))[0])
    gapchars = sorted((dict(v) for v in next(printed(r.output, 'gapchars'), (frozenset(),))[0]), key=lambda c: c['cp'])
    gapseeds = list(next(printed(r.output, 'gapseeds'), ((),))[0])
    gapplaces = sorted(next(printed(r.output, 'gapplaces'), (frozenset(),))[0])
    if (len(gapchars) < 10 or len(gapseeds) < 3 or not gapplaces) and not _too_many_hangs():
        raise tla.MachineryError('TLC printed no gap-character plan')
    del r
    if (len(pumps) < 20 or len(pump_counts) < 2) and not _too_many_hangs():
        raise tla.MachineryError('TLC printed no pump plan')
    if (len(sjobs) < 5 or len(stress) < 3) and not _too_many_hangs():
        raise tla.MachineryError('TLC printed no seed / stress plan')
    t1 = time.time()
    seed_units = [(k, seed, ms[i:i + 200]) for k, seed, ms in sjobs for i in range(0, len(ms), 200)]
    n_seed = sum(len(ms) for _, _, ms in sjobs) + len(sjobs)
    for worker, jobs_ in ((seed_worker, chunks(seed_units, PROCS * 4)),
                          (stress_worker, [[v] for v in sorted(stress, key=lambda v: (v['pre'], v['n']))]),
                          (pump_worker, [[(p, pump_counts, v)] for p in pumps for v in VERSIONS]),
                          (gap_worker, [[(tuple(sd), ch, pl)] for sd in gapseeds for ch in gapchars for pl in gapplaces])):
        for st, fails, nontriv, samples in core.pool_map(worker, jobs_, procs=PROCS, initializer=_winit, initargs=initargs):
            stats.update(st)
            merge_fails(all_fails, fails)
            nontrivial |= nontriv
    chk.add('transitions', n_seed + len(stress) + len(pumps) * len(pump_counts))
    chk.coverage['gap_characters'] = len(gapchars)
    chk.coverage['gap_seeds'] = len(gapseeds)
    chk.coverage['pumps'] = len(pumps)
    chk.coverage['pump_counts'] = pump_counts
    chk.coverage['seed_expressions'] = len(sjobs)
    chk.coverage['seed_mutations_replayed'] = n_seed
    chk.coverage['stress_vectors'] = len(stress)
    print(f'  seeds: {len(sjobs)} seeds, {n_seed} mutants; stress vectors: {len(stress)}; pumps: {len(pumps)}x{len(pump_counts)}; replay={time.time() - t1:.1f}s', flush=True)
    if n_mut < 1000 and not _too_many_hangs():
        raise tla.MachineryError(f'TLC chose only {n_mut} mutations')
    mjobs.sort(key=lambda j: (j[2] * 7919) % 10007)   # spread long expressions over the chunks
    t_plan = time.time() - t0
    t0 = time.time()
    for st, fails, nontriv, samples in core.pool_map(mut_worker, chunks(mjobs, PROCS * 8), procs=PROCS,
                                                     initializer=_winit, initargs=initargs):
        stats.update(st)
        merge_fails(all_fails, fails)
        nontrivial |= nontriv
        for s in samples[:1]:
            chk.sample(s, cap=10)
    chk.add('transitions', n_mut)
    chk.coverage['mutations_replayed'] = n_mut
    chk.coverage['mutated_expressions'] = len(mjobs)
    print(f'  mutations: expressions={len(mjobs)} mutants={n_mut} tlc={t_tlc:.1f}s plan={t_plan:.1f}s replay={time.time() - t0:.1f}s', flush=True)

    # ---- 6. binding B: TLC validates the recorded traces --------------------------------
    trace_file = os.path.join(chk.scratch, 'traces.ndjson')
    side = []
    with open(trace_file, 'w') as fh:
        all_traces = [(n, e, True) for n, e in suite_traces] + [(n, e, False) for n, e in hist_traces]
        for tid, (name, evs, is_suite) in enumerate(all_traces, start=1):
            slim = []
            for e in evs:
                if e['e'] == 'call':
                    slim.append({'e': 'call', 'p': e['p'], 's': e['s']})
                else:
                    slim.append({'e': 'ret', 'p': e['p'], 's': e['s'], 'k': e['k'], 'coded': e['coded'], 'v': e['v'],
                                 'reset': e['reset']})
            fh.write(json.dumps({'tid': tid, 'ev': slim}) + '\n')
            side.append((name, evs, is_suite))
    n_events = sum(len(evs) for _, evs, _ in side)
    cfg = tla.cfg_text({}, spec='Spec', invariants=['TypeOK', 'Closed'])
    r = tla.require_ok(tla.run_tlc('TraceParserLife', cfg, os.path.join(chk.scratch, 'trace'), workers=1,
                                   env={'C03_TRACE': trace_file}), 'TraceParserLife')
    chk.model('TraceParserLife', r)
    done = {d[0]: d[1] for d in printed(r.output, 'done')}
    if set(done) != set(range(1, len(side) + 1)):
        raise tla.MachineryError(f'TLC finished {len(done)} of {len(side)} traces')
    rejected = collections.Counter()
    already = 0
    for tid, i, legal, consistent, reset in printed(r.output, 'reject'):
        name, evs, is_suite = side[tid - 1]
        e = evs[i - 1]
        rejected[tid] += 1
        cls, text = texts.get(e['s'], ('?', '?')) if is_suite else (name, e.get('text'))
        case = dict(mode='trace', trace=name, index=i, parser_class=cls, text=text, event={k: v for k, v in e.items() if k != 'test'})
        if e['e'] != 'ret':
            raise tla.MachineryError(f'call event rejected (recorder broken?): {case}')
        if not is_suite and e.get('reported'):
            already += 1     # the history replay reported this very call
            continue
        if not legal:
            kind = 'uncoded' if e['k'] == 'err' else e['k']
            ent = [escape_features(kind, 'parse', e), 1, case, 'ApiRetStep: legal outcome', [e['k'], e['v']]]
            merge_fails(all_fails, [ent])
        if not consistent:
            ent = [dict(kind='history', binding='trace', parser_class=(cls.rsplit('.', 1)[-1] if is_suite else cls), observed=e['k']), 1, case,
                   'ApiRetStep: outcome = first outcome of the source class', [e['k'], e['v']]]
            merge_fails(all_fails, [ent])
        if not reset:
            ent = [dict(kind='cursor', field=(e.get('fields') or ['?'])[0], after=e['k']), 1, case, 'ApiRetStep: cursor reset', e.get('fields')]
            merge_fails(all_fails, [ent])
    chk.add('traces_validated_against_impl', len(side) - len(rejected))
    chk.coverage['traces_total'] = len(side)
    chk.coverage['traces_with_rejected_events'] = len(rejected)
    chk.coverage['trace_events'] = n_events
    chk.coverage['trace_events_rejected'] = sum(rejected.values())
    chk.coverage['trace_rejections_reported_by_history_replay'] = already
    chk.add('transitions', n_events - sum(rejected.values()))
    if suite_traces:
        name, evs = suite_traces[len(suite_traces) // 2]
        chk.sample(dict(trace=name, events=len(evs), first_events=[{k: v for k, v in e.items() if k in ('e', 'p', 's', 'k', 'v', 'reset', 'text')} for e in evs[:4]]), cap=12)
    print(f'  traces: {len(side)} traces, {n_events} events, rejected events={sum(rejected.values())} tlc={r.wall_s:.1f}s', flush=True)

    # ---- 7. verdicts and bookkeeping ------------------------------------------------------
    # the token symbol is a feature only so that known findings can be narrow; classes that match no known
    # finding are merged over it (one root cause = one VIOLATION class), except for RecursionError
    merged: dict = {}
    for key in sorted(all_fails):
        ent = all_fails[key]
        jf = core.jsonable(ent[0])
        if 'sym' in jf and jf.get('where') != 'recursion' and \
                not any(core.match_pattern(k['fingerprint'], jf) for k in chk.known):
            ent = [dict(ent[0]), *ent[1:]]
            ent[2] = dict(ent[2], token_symbol=ent[0].pop('sym'), context_class=ent[0].pop('ctx', None))
        merge_fails(merged, [ent])
    for key in sorted(merged):
        report(chk, merged[key])
    chk.add('distinct_nontrivial', len(nontrivial))
    chk.add('evaluations', stats.get('evaluations', 0))
    chk.coverage['outcome_counts'] = {k: v for k, v in sorted(stats.items()) if k != 'evaluations'}
    chk.coverage['exhaustive'] = not stats.get('skipped_after_hangs')
    if stats.get('skipped_after_hangs'):
        chk.note(f"{_HANGS.value} calls hung; {stats['skipped_after_hangs']} remaining cases were skipped")
    chk.coverage['rule'] = (
        'cases: every state of the Tokens graph (all token sequences up to the bound, 2 layouts, 4 parser versions, '
        '3 contexts x evaluate/get_results), every TLC-chosen one-token mutation of the harvested suite expressions, '
        'every path of the ParserLife graph (parse histories on 2 instances), every recorded suite parse (TLC trace validation). '
        'distinct_nontrivial counts (version, text) pairs that got past the grammar (a tree, or an error code other than XPST0003) '
        'plus histories in which a later call follows a failed one')
    if (not stats.get('parse_value') or not stats.get('parse_err') or not stats.get('eval_value')
            or not stats.get('eval_err')) and not _too_many_hangs():
        raise tla.MachineryError(f'vacuous replay: {dict(stats)}')
    chk.coverage['wall_breakdown_s'] = round(time.time() - t_start, 1)


# =========================================================================================
# --replay

def replay(rec: dict) -> int:
    core.setup_repo_path()
    case = rec['case']
    lp = {tla.FrozenDict(k='value', coded=False), tla.FrozenDict(k='err', coded=True)}
    le = lp | {tla.FrozenDict(k='err', coded=False)}
    _winit(lp, le, limit=False)
    bad = False
    if case['mode'] in ('text', 'trace'):
        versions = [case['version']] if case.get('version') else VERSIONS
        if case['mode'] == 'trace':
            versions = [CLASS_VERSION.get(str(case.get('parser_class', '')).rsplit('.', 1)[-1], '3.1')]
        for v in versions:
            print('version :', v)
            print('text    :', case['text'])
            for phase, detail, shape, ident, fp in run_text(v, case['text']):
                legal = shape is None or _is_legal(phase, shape)
                print(f'  {phase:5} {detail:18} {shape} {ident} {fp or ""} {"" if legal else "<-- ILLEGAL"}')
                bad = bad or not legal
    elif case['mode'] == 'history':
        v = case['version']
        h = [(p, sc, None) for p, sc in case['history'][:case.get('upto') or None]]
        cls = _W['P'][v]
        insts: dict = {}
        for p, sc, _ in h:
            parser = insts.setdefault(p, cls())
            text = source_text(sc, v)
            out = _parse_outcome(parser, text)
            fresh = _parse_outcome(cls(), text)
            unreset = cursor_unreset_fields(parser)
            ok = out[:3] == fresh[:3] and not unreset and out[0] in ('value', 'err')
            print(f'  inst {p} parse({text!r}) -> {out[:3]}  fresh -> {fresh[:3]}  unreset={unreset} {"" if ok else "<-- MISMATCH"}')
            bad = bad or not ok
    print('expected:', rec.get('expected'))
    print('observed (recorded):', rec.get('observed'))
    if bad:
        print('VIOLATION property=C03 replay=(replayed)')
        return 1
    return 0
