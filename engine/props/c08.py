"""C08 -- sequence expressions and sequence/aggregate functions equal the F&O list model.

Spec: spec/SeqModel.tla (value-state machine: the state is a sequence of tagged items or a terminal
error; one action per construct of the property -- comma, `to`, filter predicates [n] [position() op k]
[last()] [. op k] [.], for (one and two variables), some/every (direct and De Morgan dual), simple
map, count empty exists head tail reverse subsequence insert-before remove index-of distinct-values
zero-or-one one-or-more exactly-one sum avg min max string-join -- with arguments from the boundary
grid -INF -1 0 0.5 1 1.5 2 2.5 3 len len+1 INF NaN () as tokens).  The laws quoted by the property
(every = not some not, subsequence = its filter expansion = a slice, reverse o reverse = id,
count(insert-before) = count + count, remove out of range = id, sum = fold of + = closed form,
avg * count = sum, min <= items <= max, head/tail partition, cardinality errors, index-of /
distinct-values characterisations) are the TLC invariant `Laws`.  Group "focus" states the purity of the
focus: MapFocus / ForFocus / PredFocus / QuantFocus put a consumer (exists empty head count some =) of an
inner filter or map, which sets its own focus and may be abandoned early, next to a reader of the OUTER
focus (. position() last()); the definitional value ignores the consumer, the implementation has to
restore the focus after an abandoned generator and must evaluate every binding on its own context.
Group "nodes" (universe un: two sibling elements and an attribute of <r><n k=".."/>..</r>, ids in document
order): NodeMap S ! BODY and NodeFor `for $x in S return $x/BODY` (BODY in . (., .) .. @k ../n) concatenate
in the order of S and keep duplicates, NodePath S/BODY is the same set in document order (LawNodes).
CALL SYNTAX dimension of the binding: every function action is also called as fn:name(..), as EQName
Q{uri}name(..), through a named reference name#n(..), as a partial application name(?, ..)(S) and with
the arrow operator S => name(..) - same expected value; configuration falsy-uf (items 0, 0.0, '', false(),
1, -1) evaluates ALL syntaxes on every edge and must produce a falsy single result for every function.
UNTYPED data (universe uu: xs:untypedAtomic '2' 'NaN' 'x' and the element whose text is NaN, in every
position among integer/decimal/float/double items): aggregates cast it to xs:double (FORG0001), index-of /
distinct-values compare it as a string.  RangeFn: a range `a to b` written DIRECTLY (no parentheses) as the
argument of count/empty/exists/sum/avg/max/min/reverse/head/tail/subsequence/... and as the binding
sequence of for/some/every, bounds -3 -1 1 3 10 in both directions.  Group "coll": the parser's DEFAULT
COLLATION (codepoint / html-ascii-case-insensitive) is a dimension of index-of and distinct-values:
no collation argument, the collation as argument, default-collation() as argument - same value.
ForDep / ForDep3 / QuantDep are for / some / every with 2 and 3 clauses whose inner ranges DEPEND on
the outer variable (1 to $x - 1, $x to 2, S[. lt $x]; empty for the first / a middle / the last outer
value), in the multi-clause and in the nested spelling (law: several clauses = nested = tuple stream).
Universe "ux" holds values that are eq ACROSS xs:integer / xs:decimal / xs:float / xs:double including the
non-dyadic 0.1 / 0.1e0, 0.3 / 0.3e0 (F&O eq promotes the xs:decimal operand) for index-of,
distinct-values, min/max, value predicates and quantifier tests.

Binding A: the dumped TLC graph is the test plan.  Every edge S --Act(args)--> S' is rendered as XPath
text and evaluated with select(None, expr, item=1, parser=XPath2Parser|XPath30Parser|XPath31Parser).
The source sequence is spelled (1) as a literal sequence expression, (2) with constructor calls, and
(3) for composed states as the NESTED expression that produced it (parent edge chosen among the edges
that PASSED: prefix hygiene), with fresh loop-variable names per nesting level and, as a further
spelling, with the same name `$x` at every level.  Results are compared element-wise by type tag and
exact value (NaN by kind).  Outcome classes: value | err(code) | escaped(ExceptionClass) | hang.
The positional configurations also run on sequences that contain ELEMENT NODES of a fixed document
(<r><n/><n/><n/></r>, rendered as /r/n[i] and (//n)[i], evaluated with select(root, expr)): no construct
of this property may re-sort or de-duplicate them.

Second oracle for the SPEC (not for the code): plain Python list operations for the purely positional
functions (reverse, head, tail, remove, insert-before, subsequence with integer arguments);
disagreement = MachineryError.

Implementation-dependent, excluded / relaxed: order of distinct-values and the type of the kept
representative (compared as a multiset of equality classes); which of several equal extreme items of
different exact type min/max return under XPath 2.0; error-or-value for quantified expressions when one
binding raises and another decides (`erroror` states); error CODES other than FORG0003/4/5.
"""
from __future__ import annotations

import math
import os
import re
import signal
import threading
import time
import zlib
from decimal import Decimal
from fractions import Fraction

from .. import core, tla

VERSIONS = ('2.0', '3.0', '3.1')
V30 = frozenset(('3.0', '3.1'))
ALLV = frozenset(VERSIONS)
ACTION_VERSIONS = {'HeadOf': V30, 'TailOf': V30, 'Map': V30,
                   'StringJoinAny': frozenset(('3.1',)), 'StringJoinTypeErr': frozenset(('2.0', '3.0'))}
NAMED_CODES = {'FORG0003', 'FORG0004', 'FORG0005'}      # the codes the property names

ALL_GROUPS = {'pos', 'range', 'iter', 'agg', 'cat'}
TIERS = {
    'quick': [
        ('pos-u3n', dict(MaxDepth=2, MaxLen=4, InitLen=3, UniverseName='u3n', GridName='full', Groups={'pos', 'range'})),
        ('vals-u7', dict(MaxDepth=2, MaxLen=4, InitLen=3, UniverseName='u7', GridName='full',
                         Groups={'iter', 'agg', 'cat'})),
        ('agg-u9', dict(MaxDepth=2, MaxLen=4, InitLen=2, UniverseName='u9', GridName='full', Groups={'agg'})),
        ('focus-u3', dict(MaxDepth=2, MaxLen=4, InitLen=3, UniverseName='u3', GridName='full', Groups={'focus'})),
        ('eq-ux', dict(MaxDepth=2, MaxLen=4, InitLen=2, UniverseName='ux', GridName='full', Groups={'agg', 'iter'})),
        ('untyped-uu', dict(MaxDepth=2, MaxLen=4, InitLen=2, UniverseName='uu', GridName='full', Groups={'agg'})),
        ('coll-uc', dict(MaxDepth=2, MaxLen=4, InitLen=3, UniverseName='uc', GridName='small', Groups={'coll', 'range'})),
        ('nodes-un', dict(MaxDepth=2, MaxLen=4, InitLen=3, UniverseName='un', GridName='small', Groups={'nodes', 'cat'})),
        ('falsy-uf', dict(MaxDepth=2, MaxLen=4, InitLen=2, UniverseName='uf', GridName='small', Groups={'agg', 'pos'})),
        ('comp-u4-d2', dict(MaxDepth=3, MaxLen=4, InitLen=2, UniverseName='u4', GridName='small', Groups=ALL_GROUPS)),
    ],
    'thorough': [
        ('pos-u3n', dict(MaxDepth=2, MaxLen=4, InitLen=3, UniverseName='u3n', GridName='full', Groups={'pos', 'range'})),
        ('pos-u4', dict(MaxDepth=2, MaxLen=4, InitLen=3, UniverseName='u4', GridName='full', Groups={'pos', 'range'})),
        ('vals-u9', dict(MaxDepth=2, MaxLen=4, InitLen=3, UniverseName='u9', GridName='full',
                         Groups={'iter', 'agg', 'cat'})),
        ('comp-u4-d2', dict(MaxDepth=3, MaxLen=4, InitLen=2, UniverseName='u4', GridName='small', Groups=ALL_GROUPS)),
        ('eq-ux', dict(MaxDepth=2, MaxLen=4, InitLen=2, UniverseName='ux', GridName='full', Groups={'agg', 'iter'})),
        ('untyped-uu', dict(MaxDepth=2, MaxLen=4, InitLen=3, UniverseName='uu', GridName='full', Groups={'agg'})),
        ('coll-uc', dict(MaxDepth=2, MaxLen=4, InitLen=3, UniverseName='uc', GridName='small', Groups={'coll', 'range'})),
        ('nodes-un-d2', dict(MaxDepth=3, MaxLen=4, InitLen=2, UniverseName='un', GridName='small',
                             Groups={'nodes', 'pos', 'cat'})),
        ('falsy-uf', dict(MaxDepth=2, MaxLen=4, InitLen=3, UniverseName='uf', GridName='small', Groups={'agg', 'pos'})),
        ('eq-ux-3', dict(MaxDepth=2, MaxLen=4, InitLen=3, UniverseName='ux', GridName='full', Groups={'agg'})),
        ('focus-u4', dict(MaxDepth=2, MaxLen=4, InitLen=3, UniverseName='u4', GridName='full', Groups={'focus'})),
        ('focus-u3-d2', dict(MaxDepth=3, MaxLen=3, InitLen=2, UniverseName='u3', GridName='small',
                             Groups={'focus', 'iter'})),
        ('comp-u3-d3', dict(MaxDepth=4, MaxLen=3, InitLen=1, UniverseName='u3', GridName='small', Groups=ALL_GROUPS)),
        ('comp-u4-d3', dict(MaxDepth=4, MaxLen=3, InitLen=1, UniverseName='u4', GridName='small', Groups=ALL_GROUPS)),
    ],
}
MIN_DISTINCT = {'quick': 50, 'thorough': 50}


# ---------------------------------------------------------------------------------------
# rendering: abstract value -> XPath text (dumb, 1:1)

def frac(it) -> Fraction:
    return Fraction(it['q'][0], it['q'][1])


def dec_str(fr: Fraction) -> str:
    n, d = fr.numerator, fr.denominator
    k = 0
    while (10 ** k) % d != 0:
        k += 1
        if k > 60:
            raise tla.MachineryError(f'non-terminating decimal {fr} cannot be rendered')
    digits = abs(n) * ((10 ** k) // d)
    s = str(digits).rjust(k + 1, '0')
    out = (s[:-k] + '.' + s[-k:]) if k else s
    return ('-' if n < 0 else '') + out


def item_text(it, style: str) -> str:
    t = it['t']
    if t == 'int':
        n = it['q'][0]
        if style == 'ctor':
            return f'xs:integer("{n}")'
        return str(n) if n >= 0 else f'({n})'
    if t == 'dec':
        s = dec_str(frac(it))
        if style == 'ctor':
            return f'xs:decimal("{s}")'
        if '.' not in s:
            s += '.0'
        return s if not s.startswith('-') else f'({s})'
    if t in ('dbl', 'flt'):
        k = it['k']
        lex = {'nan': 'NaN', 'pinf': 'INF', 'ninf': '-INF'}.get(k) or dec_str(frac(it))
        if t == 'flt':
            return f'xs:float("{lex}")'
        if style == 'ctor' or k != 'fin':
            return f'xs:double("{lex}")'
        body = lex.lstrip('-') + 'e0'
        return body if not lex.startswith('-') else f'(-{body})'
    if t == 'str':
        s = ''.join(chr(c) for c in it['s']).replace("'", "''")
        return f"xs:string('{s}')" if style == 'ctor' else f"'{s}'"
    if t == 'unt':
        v = ''.join(chr(c) for c in it['s'])
        return f"xs:untypedAtomic('{v}')" if style != 'ctor' else f'xs:untypedAtomic("{v}")'
    if t == 'node':
        d = it['q'][0]
        if d == 1:
            return '(/*)' if style == 'ctor' else '/r'
        el = f'(//n)[{d // 2}]' if style == 'ctor' else f'/r/n[{d // 2}]'
        return el if d % 2 == 0 else el + '/@k'
    if t == 'bool':
        b = it['q'][0] == 1
        if style == 'ctor':
            return f'xs:boolean("{str(b).lower()}")'
        return 'true()' if b else 'false()'
    raise tla.MachineryError(f'cannot render item {it}')


def seq_text(items, style: str = 'lit') -> str:
    return '(' + ', '.join(item_text(x, style) for x in items) + ')'


TOK_TEXT = {'-INF': "xs:double('-INF')", 'INF': "xs:double('INF')", 'NaN': "xs:double('NaN')",
            '-1': '(-1)', '-0.5': '(-0.5)', '(1,2)': '(1, 2)'}
INT_TOKS = {'-1': -1, '0': 0, '1': 1, '2': 2, '3': 3}


def tok_text(tok: str, n: int) -> str:
    if tok == 'len':
        return str(n)
    if tok == 'len+1':
        return str(n + 1)
    return TOK_TEXT.get(tok, tok)


def tok_int(tok: str, n: int):
    if tok == 'len':
        return n
    if tok == 'len+1':
        return n + 1
    return INT_TOKS.get(tok)


NEAR_EPS = {'dec10': '0.0000000001', 'dec12': '0.000000000001', 'dbl10': '0.0000000001', 'dbl13': '0.0000000000001',
            'calc': '1e-10', 'calcdec': '0.000000000001'}
NEAR_BASE = {'0.5': '0.5', '1.5': '1.5', '2.5': '2.5'}


def near_text(tok: str, off: int, sp: str, n: int, in_pred: bool = False) -> str:
    """the near-integer argument  tok + off * eps  of SeqModel!NearV in the spelling sp: eps is a concrete tiny
    number (SeqModel!LawNear: the outcome does not depend on eps), written as an xs:decimal literal, an
    xs:double literal or computed.  Pure text arithmetic on decimal digits, no semantics."""
    base = NEAR_BASE.get(tok) or str(tok_int(tok, n))
    eps = NEAR_EPS[sp]
    if sp in ('calc', 'calcdec'):
        if sp == 'calc' and tok == 'len' and in_pred:
            base = 'last()'
        z = '0e0' if sp == 'calc' else '0.0'
        return f'({base} {"+" if off >= 0 else "-"} {eps if off else z})'
    v = Decimal(base) + off * Decimal(eps)
    txt = format(v.quantize(Decimal(eps)), 'f')
    if sp.startswith('dbl'):
        txt += 'e0'
    return txt if not txt.startswith('-') else f'({txt})'


TESTS = {'isint': '{v} instance of xs:integer', 'gt 1': '{v} gt 1', 'eq 1': '{v} eq 1',
         'le 2.5': '{v} le 2.5', "eq 'a'": "{v} eq 'a'"}


def dep_text(dep: str, X: str, x: str) -> str:
    return {'1 to $x - 1': f'(1 to {x} - 1)', '$x to 2': f'({x} to 2)', 'S[. lt $x]': f'{X}[. lt {x}]'}[dep]


def consumer_text(F: str, E: str, v: str) -> str:
    return {'exists': f'exists({E})', 'empty': f'empty({E})', 'head': f'head({E})', 'count': f'count({E})',
            'some': f'(some {v} in {E} satisfies {v} gt 0)', 'geq': f'({E} = 5)'}[F]


def action_versions(action: str, args: tuple):
    vs = ACTION_VERSIONS.get(action, ALLV)
    if action == 'NodeMap' or (action == 'RangeFn' and args[0] in ('head', 'tail', 'map1')):
        return V30
    if action in ('MapFocus', 'ForFocus', 'PredFocus', 'QuantFocus'):
        if action == 'MapFocus' or 'head' in args[:2] or any(isinstance(a, str) and a.startswith('!') for a in args):
            vs = V30
    return vs


FN_URI = 'http://www.w3.org/2005/xpath-functions'
FSTYLES = {'fn': ALLV, 'eqname': V30, 'ref': V30, 'partial': V30, 'arrow': frozenset(('3.1',))}
FUNCTION_ACTIONS = {'Subseq2', 'Subseq3', 'Subseq2Near', 'Subseq3Near', 'Remove', 'InsertBefore', 'HeadOf', 'TailOf', 'Reverse', 'Count', 'Empty',
                    'Exists', 'DistinctValues', 'ZeroOrOne', 'OneOrMore', 'ExactlyOne', 'Sum', 'SumZero', 'Avg', 'Min',
                    'Max', 'IndexOf', 'StringJoin', 'StringJoinAny', 'StringJoinTypeErr'}


def fcall(name: str, X: str, rest: list, fstyle: str) -> str:
    """the call name(X, rest...) in one of the call syntaxes of XPath; the value must not depend on it"""
    a = ', '.join([X] + rest)
    if fstyle == 'plain':
        return f'{name}({a})'
    if fstyle == 'fn':
        return f'fn:{name}({a})'
    if fstyle == 'eqname':
        return f'Q{{{FN_URI}}}{name}({a})'
    if fstyle == 'ref':                       # named function reference + dynamic call
        return f'{name}#{1 + len(rest)}({a})'
    if fstyle == 'partial':                   # every argument fixed but the source sequence
        return f'{name}({", ".join(["?"] + rest)})({X})'
    if fstyle == 'arrow':
        return f'{X} => {name}({", ".join(rest)})'
    raise tla.MachineryError(f'unknown call style {fstyle}')


def expr_for(X: str, action: str, args: tuple, n: int, sfx: str, fstyle: str = 'plain') -> str:
    """XPath text of `action(args)` applied to the source expression X (a parenthesised primary);
    n = length of the source sequence (tokens len / len+1); sfx = loop-variable suffix;
    fstyle = call syntax of the function of a FUNCTION_ACTIONS action."""
    x, y, i = f'$x{sfx}', f'$y{sfx}', f'$i{sfx}'
    T = lambda k: tok_text(args[k], n)      # noqa: E731
    if action == 'PredNum':
        return f'{X}[{T(0)}]'
    if action == 'PredPos':
        return f'{X}[position() {args[0]} {T(1)}]'
    if action == 'PredLast':
        return {'last': f'{X}[last()]', 'last-1': f'{X}[last() - 1]', 'pos=last': f'{X}[position() = last()]',
                'pos<last': f'{X}[position() lt last()]'}[args[0]]
    if action == 'Subseq2':
        return fcall('subsequence', X, [T(0)], fstyle)
    if action == 'Subseq3':
        return fcall('subsequence', X, [T(0), T(1)], fstyle)
    if action == 'PredNear':
        return f'{X}[{near_text(args[0], args[1], args[2], n, True)}]'
    if action == 'Subseq2Near':
        return fcall('subsequence', X, [near_text(args[0], args[1], args[2], n)], fstyle)
    if action == 'Subseq3Near':
        return fcall('subsequence', X, [near_text(args[0], args[1], args[4], n), near_text(args[2], args[3], args[4], n)], fstyle)
    if action == 'SubseqPred':
        return f'{X}[round({T(0)}) le position() and position() lt round({T(0)}) + round({T(1)})]'
    if action == 'Remove':
        return fcall('remove', X, [T(0)], fstyle)
    if action == 'InsertBefore':
        return fcall('insert-before', X, [T(0), seq_text(args[1])], fstyle)
    if action == 'HeadOf':
        return fcall('head', X, [], fstyle)
    if action == 'TailOf':
        return fcall('tail', X, [], fstyle)
    if action == 'Reverse':
        return fcall('reverse', X, [], fstyle)
    if action == 'ForIndex':
        return {'fwd': f'for {i} in 1 to count({X}) return {X}[{i}]',
                'rev': f'for {i} in reverse(1 to count({X})) return {X}[{i}]',
                'subseq': f'for {i} in 1 to count({X}) return subsequence({X}, {i}, 1)'}[args[0]]
    if action == 'CommaRange':
        return f'({X}, {T(0)} to {T(1)})'
    if action == 'PredRange':
        return f'{X}[position() = ({T(0)} to {T(1)})]'
    if action == 'ToCount':
        return f'(1 to count({X}))'
    if action == 'For':
        body = args[0].replace('$x', x).replace('S[', f'{X}[')
        return f'for {x} in {X} return {body}'
    if action == 'For2':
        body = args[1].replace('$x', x).replace('$y', y)
        return f'for {x} in {X}, {y} in {seq_text(args[0])} return {body}'
    if action == 'For2Self':
        body = args[0].replace('$x', x).replace('$y', y)
        return f'for {x} in {X}, {y} in {X} return {body}'
    if action == 'ForDep':
        dep, f, form = args
        D = dep_text(dep, X, x)
        body = f.replace('$x', x).replace('$y', y)
        if form == 'clauses':
            return f'for {x} in {X}, {y} in {D} return {body}'
        return f'for {x} in {X} return for {y} in {D} return {body}'
    if action == 'ForDep3':
        f, form = args
        z = f'$z{sfx}'
        body = f.replace('$x', x).replace('$y', y).replace('$z', z)
        if form == 'clauses':
            return f'for {x} in {X}, {y} in (1 to {x} - 1), {z} in ({y} to 1) return {body}'
        return f'for {x} in {X} return for {y} in (1 to {x} - 1) return for {z} in ({y} to 1) return {body}'
    if action == 'QuantDep':
        q, dep, t, form = args
        D = dep_text(dep, X, x)
        test = t.replace('$x', x).replace('$y', y)
        if form == 'clauses':
            return f'{q} {x} in {X}, {y} in {D} satisfies {test}'
        return f'{q} {x} in {X} satisfies ({q} {y} in {D} satisfies {test})'
    if action == 'Quant':
        q, p, form = args
        test = TESTS[p].format(v=x)
        if form == 'direct':
            return f'{q} {x} in {X} satisfies {test}'
        other = 'every' if q == 'some' else 'some'
        return f'not({other} {x} in {X} satisfies not({test}))'
    if action == 'Quant2':
        return f'{args[0]} {x} in {X}, {y} in {X} satisfies {x} lt {y}'
    if action == 'Map':
        return f'{X} ! ({args[0]})'
    if action == 'PredItem':
        return f'{X}[. {args[0]} {T(1)}]'
    if action == 'PredSelf':
        return f'{X}[.]'
    simple = {'Count': 'count', 'Empty': 'empty', 'Exists': 'exists', 'DistinctValues': 'distinct-values',
              'ZeroOrOne': 'zero-or-one', 'OneOrMore': 'one-or-more', 'ExactlyOne': 'exactly-one',
              'Sum': 'sum', 'Avg': 'avg', 'Min': 'min', 'Max': 'max'}
    if action in simple:
        return fcall(simple[action], X, [], fstyle)
    if action == 'IndexOf':
        return fcall('index-of', X, [T(0)], fstyle)
    if action == 'SumZero':
        return fcall('sum', X, [T(0)], fstyle)
    if action in ('StringJoin', 'StringJoinAny', 'StringJoinTypeErr'):
        sep = ''.join(chr(c) for c in args[0]) if args else '-'
        return fcall('string-join', X, [f"'{sep}'"], fstyle)
    if action in ('MapFocus', 'ForFocus', 'PredFocus'):
        F, inner, R = args[0], args[1], args[2]
        E = f'(4, 5, 6){inner}' if inner.startswith('[') else f'((4, 5, 6) {inner})'
        C = consumer_text(F, E, f'$v{sfx}')
        if action == 'MapFocus':
            return f'{X} ! ({C}, {R})'
        if action == 'ForFocus':
            return f'for {x} in {X} return ({C}, {R})'
        return f'{X}[({C}, {R})[last()] = {T(3)}]'
    if action == 'QuantFocus':
        q, F = args[0], args[1]
        C = consumer_text(F, f'(. + 1, . + 2)[. lt {T(2)}]', f'$v{sfx}')
        return f'{q} {x} in {X} satisfies {C}'
    if action == 'RangeFn':
        F, R = args[0], f'{args[1]} to {args[2]}'          # the range is the DIRECT operand: no parentheses
        return {'subsequence2': f'subsequence({R}, 2)', 'for1': f'for {x} in {R} return 1', 'map1': f'({R}) ! 1',
                'some': f'some {x} in {R} satisfies {x} gt 0',
                'every': f'every {x} in {R} satisfies {x} gt 0'}.get(F) or f'{F}({R})'
    if action in ('IndexOfC', 'DistinctC'):
        coll, form = args[-2], args[-1]
        extra = {'default': '', 'arg': f", '{COLL_URI[coll]}'", 'fn': ', default-collation()'}[form]
        if action == 'IndexOfC':
            return f'index-of({X}, {T(0)}{extra})'
        return f'distinct-values({X}{extra})'
    if action == 'NodeMap':
        return f'{X} ! {args[0]}'
    if action == 'NodeFor':
        return f'for {x} in {X} return {x}/{args[0]}'
    if action == 'AxisPreds':
        form, ax, c, pp = args
        step = f'({ax}::*)' if form == 'paren' else f'{ax}::*'
        return f'for {x} in {X} return {x}/{step}[{c}][{pp}]'
    if action == 'NodePath':
        return f'{X}/{args[0]}'
    if action == 'Comma':
        t = seq_text(args[1])
        return f'({X}, {t})' if args[0] == 'after' else f'({t}, {X})'
    raise tla.MachineryError(f'no rendering for action {action}')


# ---------------------------------------------------------------------------------------
# evaluation and projection: real result -> abstract items

_parsers = None


def parsers():
    global _parsers
    if _parsers is None:
        from elementpath import XPath2Parser
        from elementpath.xpath30 import XPath30Parser
        from elementpath.xpath31 import XPath31Parser
        _parsers = {'2.0': XPath2Parser, '3.0': XPath30Parser, '3.1': XPath31Parser}
    return _parsers


class _Hang(BaseException):
    pass


def _on_alarm(signum, frame):
    raise _Hang()


_root = None
NODE_XML = '<r><n k="x">5</n><n k="y">NaN</n><n k="z">7</n></r>'     # document-order ids: r=1, n[i]=2i, n[i]/@k=2i+1
ATTR_VALUES = 'xyz'                                                    # unique: identify the attribute nodes in results
NODE_TEXT = re.compile(r'/r\b|\(//n\)|\(/\*\)')


def root():
    global _root
    if _root is None:
        from xml.etree import ElementTree
        _root = ElementTree.XML(NODE_XML)
    return _root


def project(r):
    from elementpath.datatypes import Float
    if hasattr(r, 'tag') and _root is not None:
        if r is _root:
            return ('node', Fraction(1))
        for i, e in enumerate(list(_root)):
            if e is r:
                return ('node', Fraction(2 * (i + 1)))
        return ('other', 'element:' + str(r.tag))
    if isinstance(r, bool):
        return ('bool', Fraction(int(r)))
    if isinstance(r, int):
        return ('int', Fraction(r))
    if isinstance(r, Decimal):
        if not r.is_finite():
            return ('other', repr(r))
        return ('dec', Fraction(r))
    if isinstance(r, float):
        t = 'flt' if isinstance(r, Float) else 'dbl'
        if math.isnan(r):
            return (t, 'nan')
        if math.isinf(r):
            return (t, 'pinf' if r > 0 else 'ninf')
        return (t, 'fin', float(r))
    if type(r) is str:
        return ('str', tuple(ord(c) for c in r))
    if type(r).__name__ == 'UntypedAtomic':
        return ('unt', tuple(ord(c) for c in str(r.value)))
    return ('other', type(r).__name__ + ':' + repr(r)[:40])


COLL_URI = {'cp': 'http://www.w3.org/2005/xpath-functions/collation/codepoint',
            'ci': 'http://www.w3.org/2005/xpath-functions/collation/html-ascii-case-insensitive'}


def default_collation_for(action: str, args: tuple):
    """the parser's default collation for the evaluation of a "coll" action (None: the library default)"""
    if action not in ('IndexOfC', 'DistinctC'):
        return None
    coll, form = args[-2], args[-1]
    if form == 'arg':                     # the argument must win over a different default
        return COLL_URI['ci' if coll == 'cp' else 'cp']
    return COLL_URI[coll]


def evaluate(text: str, version: str, default_collation=None):
    """outcome of one evaluation.  The hang detector is a wall-clock alarm; on a loaded machine a
    starved worker can trip it, so a hang is only reported when a second, longer attempt hangs too."""
    r = _evaluate_once(text, version, 10, default_collation)
    if r[0] == 'hang':
        r = _evaluate_once(text, version, 90, default_collation)
    return r


def _evaluate_once(text: str, version: str, timeout: int, default_collation=None):
    import elementpath
    from elementpath.exceptions import ElementPathError
    use_alarm = threading.current_thread() is threading.main_thread()
    if use_alarm:
        signal.signal(signal.SIGALRM, _on_alarm)
        signal.alarm(timeout)
    try:
        kw = dict(default_collation=default_collation) if default_collation else {}
        if NODE_TEXT.search(text):
            r = elementpath.select(root(), text, parser=parsers()[version], **kw)     # sequences with nodes
        else:
            r = elementpath.select(None, text, item=1, parser=parsers()[version], **kw)
    except _Hang:
        return ('hang', 'alarm')
    except ElementPathError as e:
        return ('err', (e.code or '').split(':')[-1])
    except RecursionError:
        return ('escaped', 'RecursionError')
    except Exception as e:  # noqa
        return ('escaped', type(e).__name__)
    finally:
        if use_alarm:
            signal.alarm(0)
    if not isinstance(r, list):
        r = [r]
    return ('seq', tuple(project(x) for x in r))


def item_mismatch(exp, obs, relax_exact: bool = False):
    """None if the observed projected item conforms to the expected abstract item."""
    t = exp['t']
    if t == 'node' and exp['q'][0] % 2 == 1 and exp['q'][0] > 1:
        # attribute nodes come back as their (unique) string values
        return None if tuple(obs[:2]) == ('str', (ord(ATTR_VALUES[(exp['q'][0] - 3) // 2]),)) else 'value'
    if obs[0] != t:
        if relax_exact and t in ('int', 'dec') and obs[0] in ('int', 'dec') and obs[1] == frac(exp):
            return None
        return f'type:{obs[0]}'
    if t in ('int', 'dec'):
        if exp['ap']:
            q = frac(exp)
            return None if abs(obs[1] - q) <= abs(q) * Fraction(1, 10 ** 15) else 'value'
        return None if obs[1] == frac(exp) else 'value'
    if t in ('bool', 'node'):
        return None if obs[1] == frac(exp) else 'value'
    if t in ('str', 'unt'):
        return None if tuple(obs[1]) == tuple(exp['s']) else 'value'
    if exp['k'] != 'fin':
        return None if obs[1] == exp['k'] else 'value'
    if obs[1] != 'fin':
        return 'value'
    want = float(frac(exp))
    q = frac(exp)
    dyadic = q.denominator & (q.denominator - 1) == 0
    if t == 'flt' and (exp['ap'] or not dyadic):
        # single-precision rounding of xs:float is implementation-defined
        return None if abs(obs[2] - want) <= abs(want) * 1e-6 else 'value'
    if exp['ap']:
        # inexact xs:double arithmetic (operands that are not dyadic): a few ulps
        return None if abs(obs[2] - want) <= abs(want) * 1e-12 else 'value'
    return None if obs[2] == want else 'value'


def class_key_exp(it):
    if it['t'] in ('int', 'dec', 'flt', 'dbl'):
        return ('num', it['k'], str(frac(it))) if it['k'] == 'fin' else ('num', it['k'], '')
    if it['t'] in ('str', 'unt'):           # xs:untypedAtomic is compared as a string
        return ('str', tuple(it['s']))
    return (it['t'], str(frac(it)))


def class_key_obs(o):
    if o[0] in ('int', 'dec'):
        return ('num', 'fin', str(o[1]))
    if o[0] in ('flt', 'dbl'):
        # the shortest decimal that denotes this double (0.1e0 -> 1/10), as in the specification
        return ('num', 'fin', str(Fraction(repr(o[2])))) if o[1] == 'fin' else ('num', o[1], '')
    if o[0] in ('str', 'unt'):
        return ('str', tuple(o[1]))
    if o[0] == 'bool':
        return ('bool', str(o[1]))
    return ('other', str(o))


def compare(dst, obs, action: str, version: str, args: tuple = ()):
    """None if the observation conforms to the expected state, else an outcome-class string."""
    if obs[0] == 'escaped':
        return f'escaped:{obs[1]}'
    if obs[0] == 'hang':
        return 'hang'
    k = dst['k']
    if k == 'err':
        if obs[0] == 'err':
            if dst['code'] in NAMED_CODES and obs[1] != dst['code']:
                return f'code:{obs[1]}'
            return None
        return 'value_instead_of_error'
    if obs[0] == 'err':
        return None if k == 'erroror' else f'error:{obs[1]}'
    exp = dst['s']
    got = obs[1]
    if action == 'DistinctC':
        def fold(k):
            if k[0] == 'str' and args and args[0] == 'ci':
                return ('str', tuple(c + 32 if 65 <= c <= 90 else c for c in k[1]))
            return k
        if sorted(fold(class_key_exp(x)) for x in exp) != sorted(fold(class_key_obs(o)) for o in got):
            return 'classes'
        return None
    if action == 'DistinctValues':
        if sorted(class_key_exp(x) for x in exp) != sorted(class_key_obs(o) for o in got):
            return 'classes'
        return None
    if len(exp) != len(got):
        return 'length'
    relax = version == '2.0' and action in ('Min', 'Max')
    for e, o in zip(exp, got):
        m = item_mismatch(e, o, relax)
        if m:
            return m
    return None


# ---------------------------------------------------------------------------------------
# second oracle for the SPEC: python lists for the purely positional functions

def second_oracle(src, action, args, dst):
    s = list(src)
    n = len(s)
    want = None
    if action == 'Reverse':
        want = s[::-1]
    elif action == 'HeadOf':
        want = s[:1]
    elif action == 'TailOf':
        want = s[1:]
    elif action == 'Remove':
        p = tok_int(args[0], n)
        if p is not None:
            want = s[:p - 1] + s[p:] if 1 <= p <= n else s
    elif action == 'InsertBefore':
        p = tok_int(args[0], n)
        if p is not None:
            p = min(max(p, 1), n + 1)
            want = s[:p - 1] + list(args[1]) + s[p - 1:]
    elif action == 'Subseq2':
        a = tok_int(args[0], n)
        if a is not None:
            want = [s[i - 1] for i in range(1, n + 1) if a <= i]
    elif action == 'Subseq3':
        a, b = tok_int(args[0], n), tok_int(args[1], n)
        if a is not None and b is not None:
            want = [s[i - 1] for i in range(1, n + 1) if a <= i < a + b]
    if want is None:
        return None
    if dst['k'] != 'seq' or list(dst['s']) != want:
        return f'{action}{args} on a sequence of {n}: spec {dst}, python lists {want}'
    return None


# ---------------------------------------------------------------------------------------
# workers (globals are inherited by fork)

_G: dict = {}
NUMT = ('int', 'dec', 'flt', 'dbl')
NUM_TOKS = {'1', '2', '2.5', '1e0', '0.0', 'NaN'}
_VAR = re.compile(r'\$([xyzvi])\d+')


def type_sig(items) -> str:
    return '+'.join(sorted({x['t'] if x['k'] == 'fin' else 'nan' if x['k'] == 'nan' else 'inf' for x in items})) or 'empty'


def features(src, action, args, dst, outcome, version, spelling, level, fstyle='plain'):
    items = list(src)
    argtypes = set()
    for a in args:
        if isinstance(a, tuple):
            argtypes |= {x['t'] for x in a if isinstance(x, dict)}
    feat = dict(action=action, outcome=outcome, parser=version, spelling=spelling, level=level, fstyle=fstyle,
                src_len=len(items), src_types=type_sig(items),
                has_bool=any(x['t'] == 'bool' for x in items) or 'bool' in argtypes
                or any(a == 'true()' for a in args),
                bool_num_mix=(any(x['t'] == 'bool' for x in items) and
                              (any(x['t'] in NUMT for x in items) or any(a in NUM_TOKS for a in args if isinstance(a, str))))
                or (any(a == 'true()' for a in args) and any(x['t'] in NUMT for x in items)),
                has_flt=any(x['t'] == 'flt' for x in items) or 'flt' in argtypes,
                nondyadic=any(x['t'] in NUMT and x['k'] == 'fin' and x['q'][1] & (x['q'][1] - 1) for x in items)
                or any(a in ('0.1', '0.1e0', '0.3e0') for a in args if isinstance(a, str)),
                has_nan=any(x['k'] == 'nan' for x in items),
                has_str=any(x['t'] == 'str' for x in items),
                src_types_has_untyped=any(x['t'] == 'unt' or (x['t'] == 'node' and action not in ('NodeMap', 'NodeFor', 'NodePath', 'AxisPreds'))
                                          for x in items),
                src_has_attr=any(x['t'] == 'node' and x['q'][0] > 1 and x['q'][0] % 2 == 1 for x in items),
                expected_kind=('err:' + dst['code']) if dst['k'] == 'err' else dst['k'])
    for i, a in enumerate(args):
        feat[f'a{i + 1}'] = a if isinstance(a, str) else seq_text(a) if (isinstance(a, tuple) and all(isinstance(x, dict) for x in a)) \
            else ''.join(chr(c) for c in a) if isinstance(a, tuple) else str(a)
    return feat


def worker(job):
    lo, hi = job
    states, edges, spell, level = _G['states'], _G['edges'], _G['spell'], _G['level']
    fails: dict = {}
    oracle = []
    n_eval = 0
    ok_flags = []
    skipped_nested = 0
    nested_ok: dict = {}
    for idx in range(lo, hi):
        s, d, action, args = edges[idx]
        src, dst = states[s]['st']['s'], states[d]['st']
        n = len(src)
        msg = second_oracle(src, action, args, dst)
        if msg:
            oracle.append(msg)
        edge_ok = True
        allowed = action_versions(action, args)
        rot = zlib.crc32(f'{action}{args}{n}'.encode())
        for kind, text, sfx, versions in spell[s]:
            vs = [v for v in VERSIONS if v in allowed and v in versions]
            if not vs:
                continue
            # the secondary spellings are evaluated by one parser version (rotating), the primary by all
            if kind in ('ctor', 'nested-samevar') or (kind == 'lit' and level[s] > 1 and len(spell[s]) > 1):
                vs = [vs[rot % len(vs)]]
            elif _G['quick'] and len(vs) == 3:
                vs = [vs[rot % 2], vs[2]]       # quick: the newest parser and one of the two older ones
            if kind.startswith('nested'):
                # usable only if it really evaluates to the source value (prefix hygiene, re-checked)
                okn = nested_ok.get(text)
                if okn is None:
                    okn = nested_ok[text] = compare(states[s]['st'], evaluate(text, vs[-1]), '', vs[-1]) is None
                if not okn:
                    skipped_nested += 1
                    continue
            expr = expr_for(text, action, args, n, sfx)
            for v in vs:
                dc = default_collation_for(action, args)
                obs = evaluate(expr, v, dc)
                n_eval += 1
                out = compare(dst, obs, action, v, args)
                if out is not None:
                    if kind != 'nested-samevar':
                        edge_ok = False
                    feat = features(src, action, args, dst, out, v, kind, level[s])
                    key = tuple(sorted((k, str(x)) for k, x in feat.items()))
                    ent = fails.get(key)
                    if ent is None:
                        fails[key] = [feat, 1, dict(expr=expr, parser=v, action=action, default_collation=dc,
                                                    args=[a for a in args if isinstance(a, str)]), dst, obs]
                    else:
                        ent[1] += 1
        if action in FUNCTION_ACTIONS:
            # the same call in the other call syntaxes (literal source): the value must be identical
            kind, text, sfx, versions = spell[s][0]
            styles = sorted(FSTYLES)
            if _G['fstyles'] != 'all':
                styles = [styles[(rot >> 3) % len(styles)]]
            for fstyle in styles:
                vs = [v for v in VERSIONS if v in allowed and v in versions and v in FSTYLES[fstyle]]
                if not vs:
                    continue
                v = vs[rot % len(vs)] if _G['fstyles'] != 'all' else vs[-1]
                expr = expr_for(text, action, args, n, sfx, fstyle)
                obs = evaluate(expr, v)
                n_eval += 1
                out = compare(dst, obs, action, v)
                if out is not None:
                    feat = features(src, action, args, dst, out, v, kind, level[s], fstyle)
                    key = tuple(sorted((k, str(x)) for k, x in feat.items()))
                    ent = fails.get(key)
                    if ent is None:
                        fails[key] = [feat, 1, dict(expr=expr, parser=v, action=action), dst, obs]
                    else:
                        ent[1] += 1
        ok_flags.append(edge_ok)
    return lo, n_eval, list(fails.values()), oracle[:5], len(oracle), ok_flags, skipped_nested


def stable_pick(cands, key: str, seed: int, k: int):
    """deterministic choice of up to k candidates (TLC's dump order is not)."""
    cands = sorted(cands, key=lambda c: c[0])
    if len(cands) <= k:
        return cands
    h = zlib.crc32(f'{seed}:{key}'.encode())
    step = max(1, len(cands) // k)
    return [cands[(h + j * step) % len(cands)] for j in range(k)]


def replay_graph(chk: core.Check, name: str, g: tla.Graph, nested_k: int):
    states = g.states
    out = g.out()
    # BFS levels
    level = {s: 1 for s in g.init}
    frontier = list(g.init)
    while frontier:
        nxt = []
        for s in frontier:
            for d, a, args in out[s]:
                if d not in level:
                    level[d] = level[s] + 1
                    nxt.append(d)
        frontier = nxt
    by_level: dict[int, list] = {}
    for e in g.edges:
        by_level.setdefault(level[e[0]], []).append(e)
    spell: dict[int, list] = {}
    for s in g.init:
        items = states[s]['st']['s']
        spell[s] = [('lit', seq_text(items, 'lit'), '1', ALLV), ('ctor', seq_text(items, 'ctor'), '1', ALLV)]
    totals = dict(edges=0, evals=0, skipped=0, unreached=0)
    nontrivial = set()
    oracle_total = 0
    oracle_msgs = []
    samples_taken = set()
    for lv in sorted(by_level):
        lit = {s: seq_text(states[s]['st']['s']) for s in {e[0] for e in by_level[lv]}}
        edges = sorted(by_level[lv], key=lambda e: (lit[e[0]], e[2], str(e[3]), e[1]))
        for s in {e[0] for e in edges}:
            if s not in spell:
                # no passing producer: only the literal spelling remains
                items = states[s]['st']['s']
                spell[s] = [('lit', seq_text(items, 'lit'), str(lv), ALLV)]
                totals['unreached'] += 1
        _G.update(states=states, edges=edges, spell=spell, level=level, quick=(chk.tier == 'quick'),
                  fstyles=('all' if name.startswith('falsy') or chk.tier != 'quick' else 'rot'))
        step = max(50, min(2000, len(edges) // 64 + 1))
        jobs = [(i, min(i + step, len(edges))) for i in range(0, len(edges), step)]
        results = core.pool_map(worker, jobs)
        ok_edge = [True] * len(edges)
        for lo, n_eval, fails, omsgs, n_or, flags, skipped in results:
            totals['evals'] += n_eval
            totals['skipped'] += skipped
            oracle_total += n_or
            oracle_msgs += omsgs
            ok_edge[lo:lo + len(flags)] = flags
            for feat, cnt, case, exp, obs in fails:
                case['config'] = name
                chk.fail(feat, case, exp, obs, what=f'{case["expr"]}  [{case["parser"]}]')
                if cnt > 1:
                    jf = core.jsonable(feat)
                    for idx, kf in enumerate(chk.known):
                        if core.match_pattern(kf['fingerprint'], jf):
                            chk.known_hits[idx] = chk.known_hits.get(idx, 0) + cnt - 1
                            break
                    else:
                        chk.coverage['failing_evaluations_unlisted'] = chk.coverage.get('failing_evaluations_unlisted', 0) + cnt
        totals['edges'] += len(edges)
        # nested spellings for the next level: producers among the edges that passed
        cands: dict[int, list] = {}
        for (s, d, a, args), ok in zip(edges, ok_edge):
            src, dst = states[s]['st'], states[d]['st']
            if len(src['s']) > 0 and (dst['k'] != 'seq' or dst['s'] != src['s']):
                nontrivial.add((a, args, s))
            if len(samples_taken) < 10 and a not in samples_taken and len(src['s']) >= 2:
                samples_taken.add(a)
                chk.sample(dict(config=name, expr=expr_for(spell[s][-1][1], a, args, len(src['s']), spell[s][-1][2]),
                                expected=dict(k=dst['k'], code=dst['code'], items=[item_text(x, 'lit') for x in dst['s']])))
            if not ok or dst['k'] != 'seq' or a == 'DistinctValues' or level.get(d) != lv + 1 or not out[d]:
                continue
            for kind, text, sfx, versions in spell[s]:
                if kind == 'ctor' or kind == 'nested-samevar':
                    continue
                vs = versions & action_versions(a, args)
                if not vs:
                    continue
                n = len(src['s'])
                t1 = '(' + expr_for(text, a, args, n, sfx) + ')'
                t2 = _VAR.sub(r'$\1', t1)          # the same chain with one variable name at every level
                cands.setdefault(d, []).append((t1, t2, vs))
        for d, cs in cands.items():
            items = states[d]['st']['s']
            sp = [('lit', seq_text(items, 'lit'), str(lv + 1), ALLV)]
            for t1, t2, vs in stable_pick(cs, seq_text(items), chk.seed, nested_k):
                sp.append(('nested', t1, str(lv + 1), frozenset(vs)))
                if t2 != t1:
                    sp.append(('nested-samevar', t2, '', frozenset(vs)))
            spell[d] = sp
    if name.startswith('falsy'):
        # anti-vacuity of the call-syntax dimension: every function must return a single FALSY item somewhere
        def falsy(it):
            return (it['t'] in NUMT and it['k'] == 'fin' and it['q'][0] == 0) or (it['t'] == 'str' and not it['s']) \
                or (it['t'] == 'bool' and it['q'][0] == 0)
        cnt: dict = {}
        for s_, d_, a_, args_ in g.edges:
            if a_ in FUNCTION_ACTIONS:
                dst_ = states[d_]['st']
                cnt.setdefault(a_, 0)
                if dst_['k'] == 'seq' and len(dst_['s']) == 1 and falsy(dst_['s'][0]):
                    cnt[a_] += 1
        chk.coverage['falsy_single_results_by_function'] = cnt
        missing = sorted(a_ for a_, c_ in cnt.items() if not c_ and a_ not in ('IndexOf', 'StringJoinAny', 'StringJoinTypeErr'))
        if missing:
            raise tla.MachineryError(f'no falsy single result (0, 0.0, "", false()) for {missing} in {name} (vacuous)')
    chk.add('transitions', totals['edges'])
    chk.add('traces_validated_against_impl', totals['edges'])
    chk.add('evaluations', totals['evals'])
    chk.add('distinct_nontrivial', len(nontrivial))
    chk.coverage['nested_spellings_skipped'] = chk.coverage.get('nested_spellings_skipped', 0) + totals['skipped']
    chk.coverage['unreached_states'] = chk.coverage.get('unreached_states', 0) + totals['unreached']
    if oracle_total:
        raise tla.MachineryError(f'spec/SeqModel disagrees with python lists on {oracle_total} edges: {oracle_msgs[:3]}')
    return totals


# ---------------------------------------------------------------------------------------

def replay(rec: dict) -> int:
    core.setup_repo_path()
    case = rec['case']
    obs = evaluate(case['expr'], case['parser'], case.get('default_collation'))
    print('expr     :', case['expr'], ' parser', case['parser'])
    print('expected :', rec['expected'])
    print('observed :', obs)
    exp = tla.FrozenDict(rec['expected'])
    exp['s'] = tuple(tla.FrozenDict({**x, 'q': tuple(x['q']), 's': tuple(x['s'])}) for x in exp['s'])
    out = compare(exp, obs, case.get('action', ''), case['parser'], tuple(case.get('args', ())))
    if out is not None:
        print(f'VIOLATION property=C08 replay=(replayed) outcome={out}')
        return 1
    return 0


def run(chk: core.Check) -> None:
    core.setup_repo_path()
    chk.assumptions += [
        'spec/SeqModel.tla is the oracle (F&O list model; laws as TLC invariants on every source sequence); python lists cross-check its purely positional functions',
        'items: xs:integer, xs:decimal, xs:double (finite dyadic, NaN), xs:float, xs:string, xs:boolean; element nodes of <r><n/><n/><n/></r> only in the positional configurations (select(root, expr); everything else select(None, expr, item=1)); atomization of nodes is not modelled',
        'distinct-values compared as a multiset of equality classes; min/max ties across int/decimal relaxed under 2.0; quantified expressions with a raising binding and a deciding binding may raise or return; error codes compared only for FORG0003/4/5',
        'doubles compared with the correctly rounded float(Fraction); non-terminating xs:decimal results (avg) compared to 1e-15 relative',
    ]
    cfgs = TIERS[chk.tier]
    chk.coverage['configs'] = [dict(name=n, **{k: (sorted(v) if isinstance(v, (set, frozenset)) else v) for k, v in c.items()})
                               for n, c in cfgs]
    nested_k = 1 if chk.tier == 'quick' else 2

    # the TLC runs are independent: start them together, replay each as it is ready
    results: dict = {}

    def tlc_job(name, consts):
        wd = os.path.join(chk.scratch, name)
        dot = os.path.join(wd, 'g.dot')
        cfg = tla.cfg_text(consts, invariants=['Laws'])
        try:
            results[name] = (tla.run_tlc('SeqModel', cfg, wd, dump_dot=dot, workers=max(2, 12 // len(cfgs))), dot)
        except Exception as e:  # noqa
            results[name] = (e, dot)

    threads = [threading.Thread(target=tlc_job, args=c) for c in cfgs]
    for t in threads:
        t.start()
    for t in threads:
        t.join()                       # no thread is alive when the replay pools fork
    for name, consts in cfgs:
        r, dot = results[name]
        if isinstance(r, Exception):
            raise r
        tla.require_ok(r, f'SeqModel/{name}', min_distinct=MIN_DISTINCT[chk.tier])
        chk.model(f'SeqModel/{name}', r)
        t0 = time.time()
        g = tla.load_dot(dot)
        os.remove(dot)
        acts = {e[2] for e in g.edges}
        t1 = time.time()
        totals = replay_graph(chk, name, g, nested_k)
        chk.coverage.setdefault('actions_replayed', {})[name] = sorted(acts)
        print(f'  {name}: states={r.distinct} edges={totals["edges"]} evals={totals["evals"]} tlc={r.wall_s:.1f}s '
              f'load={t1 - t0:.1f}s replay={time.time() - t1:.1f}s', flush=True)
    all_acts = set().union(*chk.coverage['actions_replayed'].values())
    expected_actions = {'PredNum', 'PredNear', 'Subseq2Near', 'Subseq3Near', 'PredPos', 'PredLast', 'Subseq2', 'Subseq3', 'SubseqPred', 'Remove', 'InsertBefore',
                        'HeadOf', 'TailOf', 'Reverse', 'ForIndex', 'CommaRange', 'PredRange', 'ToCount', 'For', 'For2',
                        'For2Self', 'Quant', 'Quant2', 'Map', 'PredItem', 'PredSelf', 'Count', 'Empty', 'Exists',
                        'IndexOf', 'DistinctValues', 'ZeroOrOne', 'OneOrMore', 'ExactlyOne', 'Sum', 'SumZero', 'Avg',
                        'Min', 'Max', 'StringJoin', 'StringJoinAny', 'StringJoinTypeErr', 'Comma',
                        'MapFocus', 'ForFocus', 'PredFocus', 'QuantFocus', 'ForDep', 'ForDep3', 'QuantDep',
                        'NodeMap', 'NodeFor', 'NodePath', 'AxisPreds', 'RangeFn', 'IndexOfC', 'DistinctC'}
    if expected_actions - all_acts:
        raise tla.MachineryError(f'actions never fired (vacuous): {sorted(expected_actions - all_acts)}')
    chk.coverage['exhaustive'] = True
    chk.coverage['rule'] = ('every edge of the TLC graphs of SeqModel (source sequence x construct x grid arguments; chains to '
                            'MaxDepth-1 constructs) is one case, evaluated in literal, constructor and nested-expression '
                            'spellings by the 2.0/3.0/3.1 parsers; distinct_nontrivial = distinct (action, arguments, source '
                            'state) whose expected outcome is an error or differs from a non-empty source sequence')
