"""C07 -- comparisons, effective boolean value and logic match the specification tables.

Spec: spec/EBV.tla (value model, EBV table, and/or/not/if tables), spec/Compare.tla (value and
general comparisons in 2.0 mode, XPath 1.0 compatibility mode and XPath 1.0 proper; machine
AppendL/AppendR/Cmp), spec/Logic.tla (machine AppendL/AppendR/Fn/Bin).  Both are VALUE-STATE
MACHINES: the state is a pair of operand sequences of tagged items, Cmp/Fn/Bin edges lead to a
result state whose `res` maps every processor configuration to the SET of permitted outcomes.

Binding A: every Cmp/Fn/Bin edge of the dumped TLC graphs is rendered as an XPath expression
(constructor-call spelling, and the literal spelling where the operand types have literals) and
evaluated by the 2.0 / 3.0 / 3.1 parsers, by the 2.0 and 3.1 parsers with compatibility_mode=True
and -- for operands an XPath 1.0 expression can denote -- by the XPath 1.0 parser.  Only the
outcome (true / false / empty / error code XPTY0004 FORG0001 FORG0006) is compared with the set
TLC computed.  Two compositional families: CmpLong edges (operands padded to 5 / 8 / 17 items by repeating an item or
prepending NaN -- the permitted outcomes come from the item SETS, law InvSetBased) and BinW / NotBinW edges
(`and` / `or` over node operands written as RELATIVE paths a, b, missing, a/b from the document element,
bare or inside not() boolean() empty() exists(), both operand orders, and not(P f Q) for De Morgan).
Extension universe (compared with selected partners only): date / dateTime / time / g* values with timezones
(zero hour field of both signs, half hours, +-14:00, Z; many denote the same instant) under the implicit
timezone +05:00, and untypedAtomic values / element and attribute nodes whose lexical form is padded with
space, TAB, CR, LF (nodes replayed on xml.etree and lxml trees).
Second oracle for the SPEC on the XPath 1.0 fragment: libxml2 (lxml); disagreement
is a machinery failure.  The 2.0 tables have no second oracle: see the section references in the
modules and in known_findings.d/C07.json.
"""
from __future__ import annotations

import os
import re
from fractions import Fraction

from .. import core, tla

UNIT = 1 << 24
SYMS = {'eq': '=', 'ne': '!=', 'lt': '<', 'le': '<=', 'gt': '>', 'ge': '>='}
CFGS = ['v20', 'v30', 'v31', 'c20', 'c31', 'c10', 'u31']     # u31: 3.1 parser, NO implicit timezone in the context
# the white space of <w>, <x>, y/@t is written with character references so that the parser keeps TAB / CR / LF
DOC = ('<r><a>1</a><b>abc</b><w>&#10; true&#10;</w><x>&#13;&#10;&#9; 1 &#13;&#10;</x><y t="&#9;true&#9;"/></r>')
NODE_PATH = {'1': '/r/a', 'abc': '/r/b', '\n true\n': '/r/w', '\r\n\t 1 \r\n': '/r/x', '\ttrue\t': '/r/y/@t'}
IMPLICIT_TZ = '+05:00'           # EBV!ImplicitTZ = 300 minutes
TIERS = {       # operand sequences up to MaxLen; EBV/logic operands always up to 2 items
    'quick': {'Compare': dict(MaxLen=2, Wide=True), 'Logic': dict(MaxLen=2, Wide=True)},
    'thorough': {'Compare': dict(MaxLen=3, Wide=True), 'Logic': dict(MaxLen=2, Wide=True)},
}
CTORS = {'str': 'xs:string', 'unt': 'xs:untypedAtomic', 'uri': 'xs:anyURI', 'qn': 'xs:QName', 'date': 'xs:date',
         'dt': 'xs:dateTime', 'time': 'xs:time', 'ymd': 'xs:yearMonthDuration', 'dtd': 'xs:dayTimeDuration',
         'dur': 'xs:duration', 'hex': 'xs:hexBinary', 'b64': 'xs:base64Binary',
         'gy': 'xs:gYear', 'gym': 'xs:gYearMonth', 'gm': 'xs:gMonth', 'gmd': 'xs:gMonthDay', 'gd': 'xs:gDay',
         'int': 'xs:integer', 'dec': 'xs:decimal', 'flt': 'xs:float', 'dbl': 'xs:double'}
NUMT = ('int', 'dec', 'flt', 'dbl')


# ----------------------------------------------------------------------------------------
# rendering: abstract item -> XPath text (dumb, 1:1)

def text_of(cps) -> str:
    return ''.join(chr(c) for c in cps)


def dec_str(fr: Fraction) -> str:
    n, d = fr.numerator, fr.denominator
    k = 0
    while (10 ** k) % d != 0:
        k += 1
    digits = abs(n) * ((10 ** k) // d)
    s = str(digits).rjust(k + 1, '0')
    out = (s[:-k] + '.' + s[-k:]) if k else s
    return ('-' if n < 0 else '') + out


def num_lex(v) -> str:
    if v['k'] == 'nan':
        return 'NaN'
    if v['k'] == 'pinf':
        return 'INF'
    if v['k'] == 'ninf':
        return '-INF'
    if v['nz']:
        return '-0'
    if v['k'] == 'big':
        return str(2 ** 53 + v['n'])
    return dec_str(Fraction(v['n'], UNIT))


def render(v, style: str):
    """style: 'ctor' | 'lit' | 'x10' (XPath 1.0).  None = this spelling does not exist."""
    t = v['t']
    if t == 'node':
        return NODE_PATH[text_of(v['s'])]
    if t in NUMT:
        lex = num_lex(v)
        if style == 'ctor':
            return f'{CTORS[t]}("{lex}")'
        if style == 'x10':
            if t == 'flt' or v['nz']:
                return None
            if v['k'] not in ('fin', 'big'):
                return {'nan': '(0 div 0)', 'pinf': '(1 div 0)', 'ninf': '(-1 div 0)'}[v['k']]
            return lex if not lex.startswith('-') else f'({lex})'
        # literal
        if t == 'flt' or v['k'] not in ('fin', 'big') or v['nz']:
            return None
        if t == 'int':
            body = lex.lstrip('-')
        elif t == 'dec':
            body = lex.lstrip('-') + ('' if '.' in lex else '.0')
        else:
            body = lex.lstrip('-') + 'e0'
        return body if not lex.startswith('-') else f'(-{body})'
    if t == 'bool':
        if style == 'ctor':
            return 'xs:boolean("%s")' % ('true' if v['b'] else 'false')
        return 'true()' if v['b'] else 'false()'
    if t == 'str':
        s = text_of(v['s'])
        return f'xs:string("{s}")' if style == 'ctor' else f'"{s}"'
    if style == 'x10':
        return None
    if style == 'lit':
        return None
    if t in ('unt', 'uri'):
        return f'{CTORS[t]}("{text_of(v["s"])}")'
    return f'{CTORS[t]}("{text_of(v["lex"])}")'


def render_seq(S, style: str):
    if style == 'x10':
        if not S:
            return '/r/none'
        if all(x['t'] == 'node' for x in S):
            parts = [render(x, style) for x in S]
            return parts[0] if len(parts) == 1 else '(' + ' | '.join(parts) + ')'
        if len(S) > 1:
            return None
        return render(S[0], style)
    if not S:
        return '()'
    parts = []
    has_lit = False
    for x in S:
        r = render(x, style)
        if r is None:
            r = render(x, 'ctor')
        elif x['t'] != 'node':
            has_lit = True
        parts.append(r)
    if style == 'lit' and not has_lit:
        return None                       # identical to the constructor spelling
    return parts[0] if len(parts) == 1 else '(' + ', '.join(parts) + ')'


NAN = tla.FrozenDict(t='dbl', k='nan', n=0, nz=False)      # EBV!DbNaN
REL_PATHS = {'': ('missing', 'a/b'), '1': ('a',), 'abc': ('b',)}     # relative paths from the document element


def pad(S, how: str, k: int):
    """Compare!PadSet made concrete: extend S to k items"""
    if k <= len(S):
        return list(S)
    return list(S) + [S[-1]] * (k - len(S)) if how == 'last' else [NAN] * (k - len(S)) + list(S)


def render_short(S) -> str:
    parts = [render(x, 'lit') or render(x, 'ctor') for x in S]
    return parts[0] if len(parts) == 1 else '(' + ', '.join(parts) + ')'


def rel_texts(action, args, L, R, cfg):
    """wl(lhs) f wr(rhs) with the node operands written as relative paths (every spelling of an empty one)"""
    f, wl, wr = args
    if cfg == 'c10' and not {wl, wr} <= {'id', 'not', 'boolean'}:
        return []
    out = []
    for pa in REL_PATHS[text_of(L[0]['s']) if L else '']:
        for pb in REL_PATHS[text_of(R[0]['s']) if R else '']:
            a = pa if wl == 'id' else f'{wl}({pa})'
            b = pb if wr == 'id' else f'{wr}({pb})'
            out.append(f'{a} {f} {b}' if action == 'BinW' else f'not({a} {f} {b})')
    return out


VIA = {'revrev': 'reverse(reverse({}))', 'subseq': 'subsequence({}, 1)', 'for': '(for $x in {} return $x)',
       'filter': '({})[true()]', 'comma': '({}, ())', 'arr': '[{}]?*', 'map': 'map{{"k": {}}}?k'}


def via_text(action, args, L, R):
    """Logic!FnVia / FnRange / BinVia / BinRange: one operand is produced by a sequence construct"""
    f = args[0]
    if action in ('FnVia', 'BinVia'):
        side = args[2] if action == 'BinVia' else 'L'
        src = L if side == 'L' else R
        op = VIA[args[1]].format(render_seq(src, 'ctor'))
    else:
        side = args[3] if action == 'BinRange' else 'L'
        op = f'({args[1]} to {args[2]})'
    if action in ('FnVia', 'FnRange'):
        return f'if ({op}) then "T" else "E"' if f == 'if' else f'{f}({op})'
    other = render_seq(R if side == 'L' else L, 'lit')
    return f'{op} {f} {other}' if side == 'L' else f'{other} {f} {op}'


VIA_ACTIONS = ('FnVia', 'FnRange', 'BinVia', 'BinRange')


def expr_for(action: str, args: tuple, L, R, style: str):
    if action in VIA_ACTIONS:
        return via_text(action, args, L, R)
    if action == 'CmpLong':
        op, how, kl, kr = args
        return f'{render_short(pad(L, how, kl))} {SYMS[op]} {render_short(pad(R, how, kr))}'
    if action in ('BinW', 'NotBinW'):
        return (rel_texts(action, args, L, R, 'v31') or [None])[0]
    a = render_seq(L, style)
    if a is None:
        return None
    if action == 'Fn':
        f = args[0]
        if f == 'if':
            return None if style == 'x10' else f'if ({a}) then "T" else "E"'
        return f'{f}({a})'
    b = render_seq(R, style)
    if b is None:
        return None
    if action == 'Bin':
        return f'{a} {args[0]} {b}'
    kind, op = args
    if kind == 'val':
        return None if style == 'x10' else f'{a} {op} {b}'
    return f'{a} {SYMS[op]} {b}'


# ----------------------------------------------------------------------------------------
# evaluation and projection

_state: dict = {}


def setup():
    if _state:
        return _state
    import xml.etree.ElementTree as ET
    from elementpath import XPath1Parser, XPath2Parser
    from elementpath.xpath30 import XPath30Parser
    from elementpath.xpath31 import XPath31Parser
    _state['root'] = ET.XML(DOC)
    _state['cfg'] = {'v20': (XPath2Parser, {}), 'v30': (XPath30Parser, {}), 'v31': (XPath31Parser, {}),
                     'c20': (XPath2Parser, {'compatibility_mode': True}),
                     'c31': (XPath31Parser, {'compatibility_mode': True}), 'c10': (XPath1Parser, {}),
                     'u31': (XPath31Parser, {})}
    try:
        from lxml import etree
        _state['lxml'] = etree.XML(DOC)
        _state['lxml_tree'] = etree.XML(DOC)
    except ImportError:          # pragma: no cover
        _state['lxml'] = None
    return _state


def evaluate(text: str, cfg: str, doc: bool = False, tree: str = 'et') -> str:
    import elementpath
    from elementpath.exceptions import ElementPathError
    st = setup()
    cls, kw = st['cfg'][cfg]
    tz = None if cfg == 'u31' else IMPLICIT_TZ
    try:
        if doc or '/r/' in text:
            root = st['root'] if tree == 'et' else st['lxml_tree']
            r = elementpath.select(root, text, parser=cls, timezone=tz, **kw)
        else:                      # no node operand: no document needed (the context item is never used)
            r = elementpath.select(None, text, item=0, parser=cls, timezone=tz, **kw)
    except ElementPathError as e:
        return (e.code or '?').split(':')[-1]
    except RecursionError:
        return 'escaped:RecursionError'
    except Exception as e:  # noqa
        return 'escaped:' + type(e).__name__
    if isinstance(r, list):
        if not r:
            return 'EMPTY'
        if len(r) != 1:
            return f'seq:{len(r)}'
        r = r[0]
    if r is True:
        return 'TRUE'
    if r is False:
        return 'FALSE'
    if r == 'T':
        return 'THEN'
    if r == 'E':
        return 'ELSE'
    return 'other:' + type(r).__name__


def libxml2(text: str):
    st = setup()
    if st['lxml'] is None:
        return None
    r = st['lxml'].xpath(text)
    return 'TRUE' if r is True else 'FALSE' if r is False else f'other:{r!r}'


# ----------------------------------------------------------------------------------------
# abstract features of a case (fingerprints of findings are sub-patterns of this dict)

def tag(S) -> str:
    if not S:
        return 'empty'
    if len(S) == 1:
        return S[0]['t']
    return 'seq:' + '+'.join(sorted({x['t'] for x in S}))


def special(x) -> str:
    if x['t'] in NUMT:
        if x['k'] != 'fin':
            return x['k']                 # nan pinf ninf big
        if x['nz']:
            return 'negzero'
        if x['n'] % (UNIT // 2) != 0:
            return 'near'                 # 1 + 2^-24, 2 - 2^-23: neighbours of 1 and 2
    elif x['t'] in ('str', 'unt', 'uri', 'node'):
        if len(x['s']) == 0:
            return 'zero-length'
        if len(x['s']) >= 16 and all(48 <= ch <= 57 for ch in x['s']):
            return 'big'                  # lexical form of an integer beyond 2^53
        if x['s'][0] in (9, 10, 13, 32) or x['s'][-1] in (9, 10, 13, 32):
            return 'ws'                   # lexical form padded with XML white space
    return '-'


def tclass(t: str) -> str:
    if t in NUMT:
        return 'numeric'
    if t in ('ymd', 'dtd', 'dur'):
        return 'duration'
    if t == 'node':
        return 'unt'                      # an untyped node atomizes to xs:untypedAtomic
    return t


NOTZ = 9999


def tzmix(a, b) -> str:
    """'-' no date/time operand | 'none' both without timezone | 'both' | 'mixed' exactly one has a timezone"""
    za, zb = a.get('tz'), b.get('tz')
    if za is None or zb is None:
        return '-'
    n = (za == NOTZ) + (zb == NOTZ)
    return 'none' if n == 2 else 'both' if n == 0 else 'mixed'


def pair_class(a, b) -> str:
    ca, cb = tclass(a['t']), tclass(b['t'])
    return ca if ca == cb else '/'.join(sorted((ca, cb)))


CELLS: dict = {}          # (kind, op, a, b) -> res of the 1x1 case (filled by run() before the fork)
_cell_obs: dict = {}


def cell_outcome(kind, op, a, b, cfg):
    """(permitted, observed) of the single-pair comparison a op b in this configuration."""
    res = CELLS.get((kind, op, a, b))
    if res is None:
        return None
    key = (kind, op, a, b, cfg)
    obs = _cell_obs.get(key)
    if obs is None:
        text = expr_for('Cmp', (kind, op), (a,), (b,), 'x10' if cfg == 'c10' else 'ctor')
        obs = _cell_obs[key] = evaluate(text, cfg) if text is not None else 'n/a'
    return res[cfg], obs


def okind(outcomes) -> str:
    ks = {('bool' if o in ('TRUE', 'FALSE', 'THEN', 'ELSE') else 'empty' if o == 'EMPTY' else
           'escaped' if o.startswith(('escaped', 'other', 'seq')) else 'error') for o in outcomes}
    return ks.pop() if len(ks) == 1 else 'mixed'


def single_bool(S) -> bool:
    return len(S) == 1 and S[0]['t'] == 'bool'


def features(action, args, L, R, cfg, style, expected, observed) -> dict:
    """One root cause = one pattern: a failing comparison of SEQUENCES is traced to its first
    operand pair (a, b) that fails as a single-pair comparison (cause 'cell': the fingerprint is
    that of the pair); if every pair conforms on its own the defect is in the closure itself."""
    kind = args[0] if action == 'Cmp' else 'gen' if action == 'CmpLong' else action.lower()
    op = args[1] if action == 'Cmp' else args[0]
    mode = '1.0' if cfg == 'c10' else 'compat' if cfg[0] == 'c' else '2.0+'
    f = dict(kind=kind, op=op, opclass=('equality' if op in ('eq', 'ne') else 'order' if op in SYMS else op),
             cfg=cfg, mode=mode, style=style, shape=f'{min(len(L), 2)}x{min(len(R), 2)}', ta=tag(L), tb=tag(R),
             expected='|'.join(sorted(expected)), observed=observed)
    f['exp_kind'], f['obs_kind'] = okind(expected), okind([observed])
    f['cexp_kind'], f['cobs_kind'] = f['exp_kind'], f['obs_kind']
    if action == 'CmpLong':
        how, kl, kr = args[1:]
        f.update(kind='gen', family='long', how=how, lens=f'{kl}x{kr}', shape='2x2')
        L, R = pad(L, how, kl), pad(R, how, kr)
    elif action != 'Cmp':
        f.update(cause='logic', pair='-', cell_expected=f['expected'], cell_observed=observed, special='-')
        return f
    if len(L) == 1 and len(R) == 1:
        f.update(cause='cell', pair=pair_class(L[0], R[0]), cell_expected=f['expected'], cell_observed=observed,
                 tzmix=tzmix(L[0], R[0]),
                 special='+'.join(sorted({special(L[0]), special(R[0])} - {'-'})) or '-')
        return f
    if kind == 'val':
        f.update(cause='arity', pair='-', cell_expected=f['expected'], cell_observed=observed, special='-')
        return f
    if mode != '2.0+' and (single_bool(L) or single_bool(R)):
        f.update(cause='bool-rule', pair='-', cell_expected=f['expected'], cell_observed=observed, special='-')
        return f
    for a in L:
        for b in R:
            c = cell_outcome(kind, op, a, b, cfg)
            if c is not None and c[1] not in c[0] and 'UNSPEC' not in c[0]:
                f.update(cause='cell', pair=pair_class(a, b), cell_expected='|'.join(sorted(c[0])), cell_observed=c[1],
                         cexp_kind=okind(c[0]), cobs_kind=okind([c[1]]), tzmix=tzmix(a, b),
                         special='+'.join(sorted({special(a), special(b)} - {'-'})) or '-')
                return f
    f.update(cause='closure', pair='-', cell_expected=f['expected'], cell_observed=observed, special='-')
    return f


def cfgs_for(action, args, L, R):
    """v20, v30 and c31 share the code paths of v31 / c20 except for single pairs (binary order, casts):
    they are replayed on single pairs only."""
    if len(L) <= 1 and len(R) <= 1:
        return CFGS
    return ('v31', 'c20', 'c10')


def styles_for(cfg: str, single: bool):
    """constructor-call spelling everywhere; the literal spelling (1, 1.5, 1.5e0, "abc", true()) reaches the same
    values through the literal tokens: replayed on single pairs / single operands with the 2.0 parser"""
    if cfg == 'c10':
        return ('x10',)
    return ('ctor', 'lit') if single and cfg in ('v20', 'c20') else ('ctor',)


WS_PATH = re.compile(r'/r/(w|x|y/@t)\b')     # a white space padded node: replayed on xml.etree AND lxml trees


def worker(job):
    setup()
    fails, oracle = [], []
    n_eval = n_x10 = n_unspec = 0
    for (action, args, L, R, res) in job:
        if action in ('BinW', 'NotBinW'):
            for cfg in CFGS:
                allowed = res[cfg]
                for text in rel_texts(action, args, L, R, cfg):
                    if cfg == 'c10':
                        n_x10 += 1
                        ref = libxml2(text)
                        if ref is not None and set(allowed) != {ref}:
                            oracle.append(f'{text}: spec {sorted(allowed)} libxml2 {ref}')
                            continue
                    obs = evaluate(text, cfg, doc=True)
                    n_eval += 1
                    if obs not in allowed:
                        fails.append((features(action, args, L, R, cfg, 'rel', allowed, obs),
                                      dict(expr=text, cfg=cfg, doc=True), sorted(allowed), obs))
            continue
        if action in VIA_ACTIONS:
            text = via_text(action, args, L, R)
            only31 = action in ('FnVia', 'BinVia') and args[1] in ('arr', 'map')
            for cfg in (('v31',) if only31 else ('v20', 'v31', 'c20')):
                allowed = res[cfg]
                obs = evaluate(text, cfg)
                n_eval += 1
                if obs not in allowed:
                    fails.append((features(action, args, L, R, cfg, 'via', allowed, obs),
                                  dict(expr=text, cfg=cfg), sorted(allowed), obs))
            continue
        if action == 'CmpLong':
            text = expr_for(action, args, L, R, 'lit')
            for cfg in ('v31', 'c20'):
                allowed = res[cfg]
                obs = evaluate(text, cfg)
                n_eval += 1
                if obs not in allowed:
                    fails.append((features(action, args, L, R, cfg, 'lit', allowed, obs),
                                  dict(expr=text, cfg=cfg), sorted(allowed), obs))
            continue
        for cfg in cfgs_for(action, args, L, R):
            allowed = res[cfg]
            if not allowed or (cfg == 'u31' and action != 'Cmp'):
                continue                       # configuration not applicable to this case
            if action == 'Cmp' and args[0] == 'val' and cfg == 'c10':
                continue
            if 'UNSPEC' in allowed:
                n_unspec += 1
                continue
            for style in styles_for(cfg, len(L) <= 1 and len(R) <= 1):
                text = expr_for(action, args, L, R, style)
                if text is None:
                    continue
                if style == 'x10':
                    n_x10 += 1
                    ref = libxml2(text)
                    if ref is not None and set(allowed) != {ref}:
                        oracle.append(f'{text}: spec {sorted(allowed)} libxml2 {ref}')
                        continue
                for tree in (('et', 'lxml') if WS_PATH.search(text) else ('et',)):
                    obs = evaluate(text, cfg, tree=tree)
                    n_eval += 1
                    if obs not in allowed:
                        fails.append((features(action, args, L, R, cfg, style, allowed, obs),
                                      dict(expr=text, cfg=cfg, tree=tree), sorted(allowed), obs))
    return n_eval, n_x10, n_unspec, fails, oracle


def replay(rec: dict) -> int:
    core.setup_repo_path()
    case = rec['case']
    obs = evaluate(case['expr'], case['cfg'], doc=bool(case.get('doc')), tree=case.get('tree', 'et'))
    print('expr     :', case['expr'], ' configuration', case['cfg'], ' document', DOC)
    print('permitted:', rec['expected'])
    print('observed :', obs)
    if obs not in rec['expected']:
        print('VIOLATION property=C07 replay=(replayed)')
        return 1
    return 0


def plan_from_graph(g) -> list:
    """(action, args, lhs, rhs, res) for every result-producing edge."""
    out = []
    for s, d, a, args in g.edges:
        if a in ('Cmp', 'Fn', 'Bin', 'CmpLong', 'BinW', 'NotBinW') + VIA_ACTIONS:
            src, dst = g.states[s], g.states[d]
            out.append((a, args, src['lhs'], src['rhs'], dst['res']))
    return out


def run(chk: core.Check) -> None:
    core.setup_repo_path()
    consts = TIERS[chk.tier]
    chk.assumptions += [
        'spec/EBV.tla, Compare.tla, Logic.tla are the oracle; W3C sections are cited on every operator (no second oracle for the 2.0 tables)',
        'XPath 1.0 fragment of the tables cross-checked against libxml2 (lxml): disagreement = machinery failure',
        'where XPath 2.0 section 2.3.4 permits several outcomes (true vs. error of another pair; empty vs. XPTY0004) the whole set is accepted',
        'implicit timezone +05:00 passed as select(timezone=...); configuration u31 passes none: the library then uses UTC (implementation-defined); code point collation; numeric values on the dyadic grid n/2^24 (exact promotion)',
        'nodes are untyped elements of the document ' + DOC,
    ]
    plans = []
    for module, spec, inv in (('Compare', 'Spec', 'GeneralLaws'), ('Logic', 'LSpec', 'LogicLaws')):
        wd = os.path.join(chk.scratch, module)
        dot = os.path.join(wd, 'g.dot')
        cfg = tla.cfg_text(consts[module], spec=spec, invariants=[inv])
        r = tla.require_ok(tla.run_tlc(module, cfg, wd, dump_dot=dot), f'{module}/{chk.tier}', min_distinct=1000)
        chk.model(f'{module}/{chk.tier}', r)
        g = tla.load_dot(dot)
        os.remove(dot)
        plan = plan_from_graph(g)
        if not plan:
            raise tla.MachineryError(f'{module}: no Cmp/Fn/Bin edges in the graph')
        acts = {(p[0],) + tuple(p[1]) for p in plan}
        chk.coverage.setdefault('operations_fired', {})[module] = len(acts)
        want = 12 + 48 if module == 'Compare' else 5 + 100 + 21 + 12 + 28 + 16   # Cmp + CmpLong; Fn/Bin + BinW/NotBinW + Via/Range
        if len(acts) != want:
            raise tla.MachineryError(f'{module}: {len(acts)} distinct operations fired, expected {want}')
        print(f'  {module}: states={r.distinct} edges={len(g.edges)} plan={len(plan)} tlc={r.wall_s:.1f}s', flush=True)
        plans.append((module, plan))
        if module == 'Compare':
            for a, args, L, R, res in plan:
                if len(L) == 1 and len(R) == 1:
                    CELLS[(args[0], args[1], L[0], R[0])] = res
        del g
    oracle_msgs = []
    for module, plan in plans:
        chk.add('transitions', len(plan))
        chk.add('traces_validated_against_impl', len(plan))
        # non-trivial: the permitted set is not just a type error
        nontrivial = {(p[0], p[1], p[2], p[3]) for p in plan
                      if any(o in ('TRUE', 'FALSE', 'THEN', 'ELSE') for c in CFGS for o in p[4][c])}
        chk.add('distinct_nontrivial', len(nontrivial))
        for p in plan[:: max(1, len(plan) // 5)][:5]:
            chk.sample(dict(expr=expr_for(p[0], p[1], p[2], p[3], 'ctor'), permitted={c: sorted(p[4][c]) for c in ('v20', 'v31', 'c20', 'c10')}))
        results = core.pool_map(worker, core.chunked(plan, 256))
        for n_eval, n_x10, n_unspec, fails, oracle in results:
            chk.add('evaluations', n_eval)
            chk.add('libxml2_cross_checks', n_x10)
            chk.add('excluded_unspecified', n_unspec)
            oracle_msgs += oracle
            for feat, case, exp, obs in fails:
                chk.fail(feat, case, exp, obs, what=f"{case['expr']}  [{case['cfg']}]")
    if oracle_msgs:
        raise tla.MachineryError(f'spec disagrees with libxml2 on the XPath 1.0 fragment ({len(oracle_msgs)}): {oracle_msgs[:8]}')
    chk.coverage['constants'] = consts
    chk.coverage['exhaustive'] = True
    chk.coverage['rule'] = ('every Cmp(kind, op) edge of Compare (all ordered pairs of the 60-item universe (58 atomic values, 2 nodes) and the empty sequence, all operand sequences up to '
                            'MaxLen over the sequence pool; x 6 operators x value/general) and every Fn/Bin edge of Logic is one case per '
                            'configuration (v20 v31 c20 c10 always; v30 c31 on single pairs) and spelling (constructor calls; literals on '
                            'v20/c20 for single pairs; XPath 1.0 text on c10); a failing sequence case is traced to its first failing operand pair')
