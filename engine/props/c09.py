"""C09 -- string functions agree with their F&O definitions on all Unicode strings.

Spec: spec/Strings.tla (value-state machine: the state is the current string as Seq of code
points, or the empty sequence, or a code point sequence; actions Fn1(f), Fn2(f, t),
Translate(m, r), Substring2(a), Substring3(a, b), ConcatNum(a), ConcatNum10(a), ConcatBool(b),
CpToStr, Rejoin(t); the identities and laws quoted by the property are TLC invariants).  The
dumped graph is the test plan.  EVERY edge  s --Act(args)--> v  is replayed on the real code:

  * strings / numbers / code point lists are passed as VARIABLES ($s $t $m $r $a $b $c), so no
    literal escaping is involved; parsers 1.0 (functions that exist there), 2.0 and 3.1;
    spellings: plain, explicit code point collation argument, exact numerics
    (xs:integer / xs:decimal instead of xs:double), and NESTED: the source string spelled as
    the function call that produced it along another edge (chains of depth 2, e.g.
    codepoints-to-string(string-to-codepoints($s0)), substring(concat($s0,$t0),$a)).
  * second oracle AND property clause: the same vectors through libxml2 (lxml) for the
    XPath 1.0 functions.  spec != libxml2 => MachineryError; elementpath 1.0 != spec(=libxml2)
    => violation.  The only point where XPath 1.0 and F&O genuinely differ inside the model is
    string(+-INF) = 'Infinity' / '-Infinity' (XPath 1.0 sec. 4.2) vs 'INF' / '-INF': the spec
    carries both rules (Lex / Lex10, action ConcatNum10 is replayed on the 1.0 side only,
    ConcatNum with an infinite operand on the 2.0+ side only).
  * further second oracles for the SPEC: python's UTF-8 codec for the %HH octets, str.upper /
    str.lower (Unicode database) for the case pairs of the alphabet, float() of the numeric
    tokens for the canonical lexical forms.  Disagreement = MachineryError.

Error codes are not named by the property: only the outcome class is compared for FOCH0001.
Excluded (property): case mapping beyond ASCII letters, collations other than the code point
collation (the parsers are built with default_collation = code point collation so that the
environment's locale cannot leak in), normalize-unicode.
"""
from __future__ import annotations

import json
import os
from decimal import Decimal

from .. import core, tla

CODEPOINT = 'http://www.w3.org/2005/xpath-functions/collation/codepoint'
ALL_ACTS = {"fn1", "fn2", "translate", "substring", "concatx", "rejoin", "cps"}
A12 = {97, 98, 65, 49, 32, 9, 10, 769, 128512, 37, 47, 160}
A8 = {97, 98, 65, 32, 10, 769, 128512, 160}
A2Q = {97, 32, 769, 128512}
A2T = {97, 65, 32, 769, 128512}
A6 = {97, 98, 32, 769, 128512, 160}
A9T = {97, 98, 65, 32, 10, 769, 128512, 37, 160}
SWEEP = set(range(32, 127)) | {9, 10, 13}
EVERY = set(A12) | {0, 66} | SWEEP


def _parts(alpha, n, with_zero=True):
    """first-code-point partitions; the first part also owns "", (), the code point sequences,
    the printable-ASCII sweep and the upper-case images"""
    al = sorted(alpha)
    k = (len(al) + n - 1) // n
    out = []
    for i in range(0, len(al), k):
        p = set(al[i:i + k])
        if 98 in p:
            p.add(66)
        if 97 in p:
            p.add(65)
        if i == 0 and with_zero:
            p |= {0} | (SWEEP - set(alpha) - {65, 66})
        out.append(p)
    return out


def _tiers():
    quick = [('L3', dict(MaxLen=3, Alpha=A8, Alpha2=A2Q, AlphaM={97, 32, 128512}, GridName='small',
                         Sweep=True, Part=EVERY, Acts=ALL_ACTS))]
    thorough = []
    # all strings <= 3 over the full alphabet x all second strings <= 2 over 9 character classes x full grid
    for i, p in enumerate(_parts(A12, 3)):
        thorough.append((f'L3-full-p{i}', dict(MaxLen=3, Alpha=A12, Alpha2=A9T, AlphaM={97, 98, 32, 128512},
                                              GridName='full', Sweep=(i == 0), Part=p, Acts=ALL_ACTS)))
    # all strings <= 4 over 6 character classes x second strings <= 2 over 5 x full grid
    for i, p in enumerate(_parts(A6, 2, with_zero=False)):
        thorough.append((f'L4-p{i}', dict(MaxLen=4, Alpha=A6, Alpha2=A2T, AlphaM={97, 32, 128512},
                                          GridName='full', Sweep=False, Part=p, Acts=ALL_ACTS)))
    return {'quick': quick, 'thorough': thorough}


TIERS = _tiers()

IN10_F1 = {'normalize-space', 'string-length'}
IN10_F2 = {'contains', 'starts-with', 'substring-before', 'substring-after', 'concat'}
COLLATION_F2 = {'contains', 'starts-with', 'ends-with', 'substring-before', 'substring-after', 'compare'}
SPECIALS = {'INF', '-INF', 'NaN'}
EXPECTED_ACTIONS = {'Fn1', 'Fn2', 'Translate', 'Substring2', 'Substring3', 'ConcatNum', 'ConcatNum10',
                    'ConcatBool', 'CpToStr', 'Rejoin'}


# ---------------------------------------------------------------------------------------
# binding tables (dumb 1:1 rendering)

def text(cps) -> str:
    return ''.join(map(chr, cps))


def enc_value(v):
    """abstract state value -> encoded variable value ['str', [cps]] | ['empty'] | ['cps', [...]]"""
    t = v['t']
    if t == 'str':
        return ['str', list(v['s'])]
    if t == 'empty':
        return ['empty']
    if t == 'cps':
        return ['cps', list(v['c'])]
    raise ValueError(t)


def dec_var(e):
    k = e[0]
    if k == 'str':
        return text(e[1])
    if k == 'empty':
        return []
    if k == 'cps':
        return list(e[1])
    if k == 'dbl':
        return float(e[1])
    if k == 'int':
        return int(e[1])
    if k == 'dec':
        return Decimal(e[1])
    raise ValueError(k)


def num_exact(tok: str):
    """xs:integer / xs:decimal spelling of a finite grid token"""
    return ['int', tok] if '.' not in tok else ['dec', tok]


def template(action: str, args: tuple, sfx: str = ''):
    """-> (fn, expression text with $s, variables (encoded, without s), in_xpath10)"""
    v = lambda n: f'${n}{sfx}'  # noqa: E731
    if action == 'Fn1':
        f = args[0]
        return f, f'{f}($s)', {}, f in IN10_F1
    if action == 'Fn2':
        f, t = args
        return f, f'{f}($s,{v("t")})', {'t' + sfx: ['str', list(t)]}, f in IN10_F2
    if action == 'Translate':
        m, r = args
        return 'translate', f'translate($s,{v("m")},{v("r")})', {'m' + sfx: ['str', list(m)], 'r' + sfx: ['str', list(r)]}, True
    if action == 'Substring2':
        return 'substring', f'substring($s,{v("a")})', {'a' + sfx: ['dbl', args[0]]}, True
    if action == 'Substring3':
        return 'substring', f'substring($s,{v("a")},{v("b")})', {'a' + sfx: ['dbl', args[0]], 'b' + sfx: ['dbl', args[1]]}, True
    if action in ('ConcatNum', 'ConcatNum10'):
        return 'concat', f'concat($s,{v("a")})', {'a' + sfx: ['dbl', args[0]]}, True
    if action == 'ConcatBool':
        return 'concat', f'concat($s,{"true()" if args[0] else "false()"})', {}, True
    if action == 'CpToStr':
        return 'codepoints-to-string', 'codepoints-to-string($s)', {}, False
    if action == 'Rejoin':
        t = args[0]
        return 'rejoin', f'concat(substring-before($s,{v("t")}),{v("t")},substring-after($s,{v("t")}))', \
            {'t' + sfx: ['str', list(t)]}, True
    raise ValueError(action)


def norm_expected(v):
    t = v['t']
    if t == 'str':
        return ('str', tuple(v['s']))
    if t == 'bool':
        return ('bool', v['b'])
    if t == 'int':
        return ('int', v['i'])
    if t == 'cps':
        return ('cps', tuple(v['c'])) if v['c'] else ('seq', ())
    if t == 'empty':
        return ('seq', ())
    if t == 'err':
        return ('err', v['code'])
    raise ValueError(t)


def project(r):
    """real result -> abstract value"""
    if isinstance(r, bool):
        return ('bool', r)
    if isinstance(r, int):
        return ('int', r)
    if isinstance(r, float):
        return ('int', int(r)) if r == r and abs(r) != float('inf') and r == int(r) else ('float', repr(r))
    if isinstance(r, str):
        if type(r) is not str and type(r).__name__ not in ('_ElementUnicodeResult', '_ElementStringResult'):
            return ('other', type(r).__name__)
        return ('str', tuple(map(ord, r)))
    if isinstance(r, list):
        if not r:
            return ('seq', ())
        if all(isinstance(x, int) and not isinstance(x, bool) for x in r):
            return ('cps', tuple(r))
        return ('other', 'list:' + ','.join(type(x).__name__ for x in r[:3]))
    return ('other', type(r).__name__)


def conforms(exp, obs):
    """None if the observation conforms, else an outcome class"""
    if exp[0] == 'err':
        if obs[0] == 'err':
            return None          # the property does not name the code
        return f'escaped:{obs[1]}' if obs[0] == 'escaped' else 'value_instead_of_error'
    if obs[0] == 'err':
        return f'error:{obs[1]}'
    if obs[0] in ('escaped', 'other', 'float'):
        return f'{obs[0]}:{obs[1]}'
    if exp[0] == 'cps' and obs[0] == 'int' and len(exp[1]) == 1:
        return None if exp[1][0] == obs[1] else 'value'
    if exp[0] != obs[0]:
        return f'type:{obs[0]}'
    return None if exp[1] == obs[1] else 'value'


# ---------------------------------------------------------------------------------------
# implementation drivers (public API only)

_sel_cache: dict = {}
_lx_cache: dict = {}
_lx_root = None
_parsers = None


def parsers():
    global _parsers
    if _parsers is None:
        from elementpath import XPath1Parser, XPath2Parser
        from elementpath.xpath31 import XPath31Parser
        _parsers = {'1.0': XPath1Parser, '2.0': XPath2Parser, '3.1': XPath31Parser}
    return _parsers


def evaluate(expr: str, version: str, variables: dict, fresh: bool = False):
    """outcome: abstract value | ('err', code) | ('escaped', ExceptionClass)"""
    import elementpath
    from elementpath.exceptions import ElementPathError
    kw = {} if version == '1.0' else {'default_collation': CODEPOINT}
    vs = {k: dec_var(e) for k, e in variables.items()}
    try:
        if fresh:
            r = elementpath.select(None, expr, item=1, parser=parsers()[version], variables=vs, **kw)
        else:
            sel = _sel_cache.get((expr, version))
            if sel is None:
                sel = _sel_cache[(expr, version)] = elementpath.Selector(expr, parser=parsers()[version], **kw)
            r = sel.select(None, item=1, variables=vs)
    except ElementPathError as e:
        return ('err', (e.code or '').split(':')[-1])
    except RecursionError:
        return ('escaped', 'RecursionError')
    except Exception as e:  # noqa
        return ('escaped', type(e).__name__)
    return project(r)


def libxml2(expr: str, variables: dict):
    global _lx_root
    from lxml import etree
    if _lx_root is None:
        _lx_root = etree.XML('<r/>')
    xp = _lx_cache.get(expr)
    if xp is None:
        xp = _lx_cache[expr] = etree.XPath(expr)
    try:
        r = xp(_lx_root, **{k: dec_var(e) for k, e in variables.items()})
    except Exception as e:  # noqa
        return ('escaped', type(e).__name__ + ':' + str(e)[:60])
    return project(r)


# ---------------------------------------------------------------------------------------
# abstract features of a failing case (known findings are sub-patterns of these)

def num_class(tok: str) -> str:
    if tok == 'NaN':
        return 'nan'
    if tok == 'INF':
        return 'pinf'
    if tok == '-INF':
        return 'ninf'
    q = int(Decimal(tok) * 4)
    if q % 4 == 0:
        return 'int'
    if q % 4 != 2:
        return 'frac'
    return 'tie_even' if ((q - 2) // 4) % 2 == 0 else 'tie_odd'     # x.5 whose floor is even / odd


def features(action, args, fn, src, exp, outcome, version, spelling, inner):
    s = src.get('s', src.get('c', ()))
    f = dict(fn=fn, action=action, parser=('1.0' if version == '1.0' else '2+'), src=src['t'], spelling=spelling,
             outcome=outcome, expected=exp[0], inner=inner)
    if fn == 'normalize-space':
        f['has_nbsp'] = 160 in s       # Unicode White_Space that is not XML whitespace
    if action in ('Substring2', 'Substring3'):
        f['nargs'] = len(args) + 1
        f['a_class'] = num_class(args[0])
        f['b_class'] = num_class(args[1]) if len(args) > 1 else None
        f['tie_even_arg'] = 'tie_even' in (f['a_class'], f['b_class'])    # an argument x.5 with even floor(x)
    elif action in ('ConcatNum', 'ConcatNum10'):
        f['a_class'] = num_class(args[0])
    elif action == 'Translate':
        m, r = args
        f['map_repeat'] = len(set(m)) != len(m)
        f['map_vs_trans'] = 'equal' if len(m) == len(r) else 'longer' if len(m) > len(r) else 'shorter'
    return f


# ---------------------------------------------------------------------------------------
# worker: replays a range of edges of the (fork-inherited) graph

G = {}     # 'states', 'edges', 'producers', 'has_out'


def spellings(idx, src, action, args):
    """-> list of (spelling, expr, variables, versions)"""
    fn, expr, vs, in10 = template(action, args)
    out = []
    srcv = enc_value(src)
    vs = dict(vs, s=srcv)
    alt, other = ('2.0', '3.1') if idx % 2 else ('3.1', '2.0')
    is_str = src['t'] == 'str'
    if action == 'ConcatNum10':
        return fn, [('plain', expr, vs, ['1.0'])] if is_str else []
    # the 2.0 and 3.1 parsers share one implementation of these functions: quick alternates them
    versions = ['2.0', '3.1'] if G.get('all_versions') and action != 'Fn2' else [other]
    if in10 and is_str and not (action == 'ConcatNum' and args[0] in ('INF', '-INF')):
        versions = ['1.0'] + versions
    out.append(('plain', expr, vs, versions))
    if action == 'Fn2' and fn in COLLATION_F2:
        out.append(('collation', f'{fn}($s,$t,$k)', dict(vs, k=['str', list(map(ord, CODEPOINT))]), [alt]))
    if action in ('Substring2', 'Substring3', 'ConcatNum'):
        ex = dict(vs)
        changed = False
        for name, tok in zip('ab', args):
            if tok not in SPECIALS:
                ex[name] = num_exact(tok)
                changed = True
        if changed:
            out.append(('exact', expr, ex, [alt]))
    if src['t'] == 'empty' and action != 'CpToStr':
        lit = dict(vs)
        del lit['s']
        out.append(('literal-empty', expr.replace('$s', '()'), lit, [alt]))
    return fn, out


def worker(job):
    lo, hi = job
    states, edges, producers = G['states'], G['edges'], G['producers']
    fails, oracle = [], []
    n_eval = n_lx = n_nested = 0
    inner_ok: dict = {}
    for idx in range(lo, hi):
        s, d, action, args = edges[idx]
        src, dst = states[s]['cur'], states[d]['cur']
        exp = norm_expected(dst)
        fn, sps = spellings(idx, src, action, args)
        # chains of depth 2: the source spelled as the call that produced it along another edge
        prods = producers.get(s)
        if prods and action != 'ConcatNum10' and idx % 4 in (0, 3):
            ps, pact, pargs = prods[idx % len(prods)]
            psrc = states[ps]['cur']
            pfn, pexpr, pvs, pin10 = template(pact, pargs, '0')
            pexpr = pexpr.replace('$s', '$s0')
            pvs = dict(pvs, s0=enc_value(psrc))
            _, oexpr, ovs, oin10 = template(action, args)
            nvers = ['2.0' if idx % 2 else '3.1']
            if pin10 and oin10 and psrc['t'] == 'str' and (idx % 3 == 0) and \
                    not (action == 'ConcatNum' and args[0] in ('INF', '-INF')):
                nvers.append('1.0')
            for nv in nvers:
                key = (ps, pact, pargs, nv)
                ok = inner_ok.get(key)
                if ok is None:
                    n_eval += 1
                    ok = inner_ok[key] = conforms(norm_expected(src), evaluate(pexpr, nv, pvs)) is None
                if ok:       # prefix hygiene: a failing inner call is reported on its own edge
                    sps.append((f'nested:{pfn}', oexpr.replace('$s', pexpr), dict(ovs, **pvs), [nv]))
                    n_nested += 1
        lx_done = False
        for spelling, expr, vs, versions in sps:
            if '1.0' in versions and not lx_done and spelling == 'plain':
                lx_done = True
                lx = libxml2(expr, vs)
                n_lx += 1
                if conforms(exp, lx) is not None:
                    oracle.append(f'{expr} {vs}: spec {exp} libxml2 {lx}')
            for v in versions:
                fresh = (idx + len(expr)) % 16 == 0
                obs = evaluate(expr, v, vs, fresh=fresh)
                n_eval += 1
                out = conforms(exp, obs)
                if out is not None:
                    again = evaluate(expr, v, vs, fresh=not fresh)
                    inner = spelling.split(':', 1)[1] if spelling.startswith('nested:') else None
                    feat = features(action, args, fn, src, exp, out, v, spelling.split(':')[0], inner)
                    case = dict(expr=expr, parser=v, variables=vs, fresh_and_cached_agree=(again == obs))
                    fails.append((feat, case, exp, obs))
    return n_eval, n_lx, n_nested, fails, oracle


def spec_oracles(g) -> list[str]:
    """python-side cross-checks of the SPEC (not of the code)"""
    msgs = []
    for s, d, action, args in g.edges:
        src, dst = g.states[s]['cur'], g.states[d]['cur']
        if src['t'] != 'str':
            continue
        if action == 'ConcatNum' and src['s'] == ():
            tok = args[0]
            if text(dst['s']) != tok or not (float(tok) == float(tok) or tok == 'NaN'):
                msgs.append(f'Lex({tok}) = {text(dst["s"])!r}')
        elif action == 'Fn1' and len(src['s']) == 1:
            c = src['s'][0]
            f = args[0]
            if f in ('encode-for-uri', 'iri-to-uri', 'escape-html-uri') and dst['s'] != src['s']:
                want = ''.join('%%%02X' % b for b in chr(c).encode('utf-8'))
                if text(dst['s']) != want:
                    msgs.append(f'{f}(U+{c:04X}) = {text(dst["s"])!r}, UTF-8 codec says {want!r}')
            elif f == 'upper-case' and text(dst['s']) != chr(c).upper():
                msgs.append(f'upper-case(U+{c:04X}) spec {dst["s"]} unicode {chr(c).upper()!r}')
            elif f == 'lower-case' and text(dst['s']) != chr(c).lower():
                msgs.append(f'lower-case(U+{c:04X}) spec {dst["s"]} unicode {chr(c).lower()!r}')
    return msgs


def trivial(src, dst) -> bool:
    if dst['t'] == 'str':
        return dst['s'] == () or (src['t'] == 'str' and dst['s'] == src['s'])
    if dst['t'] == 'bool':
        return dst['b'] is False
    return dst['t'] in ('empty',)


def replay(rec: dict) -> int:
    core.setup_repo_path()
    case = rec['case']
    obs = evaluate(case['expr'], case['parser'], case['variables'], fresh=True)
    exp = tuple(tuple(x) if isinstance(x, list) else x for x in rec['expected'])
    print('expr      :', case['expr'], ' parser', case['parser'])
    print('variables :', {k: dec_var(e) for k, e in case['variables'].items()})
    print('expected  :', exp, repr(text(exp[1])) if exp[0] == 'str' else '')
    print('observed  :', obs, repr(text(obs[1])) if obs[0] == 'str' else '')
    out = conforms(exp, obs)
    if out is not None:
        print(f'VIOLATION property=C09 replay=(replayed) outcome={out}')
        return 1
    return 0


def run(chk: core.Check) -> None:
    core.setup_repo_path()
    chk.assumptions += [
        'spec/Strings.tla is the oracle: a string is its code point sequence; code point collation only',
        'libxml2 (lxml) is second oracle for the XPath 1.0 functions; python UTF-8 codec, str.upper/lower and float() cross-check the spec tables',
        'XPath 1.0 string(+-INF) = Infinity (sec. 4.2) differs from F&O INF: modelled by ConcatNum10, replayed on the 1.0 side only',
        'parsers are built with default_collation = Unicode code point collation (the locale-derived default is outside C09)',
        'error codes are not compared (the property names none); codepoints-to-string only uses code points invalid/valid in both XML 1.0 and 1.1',
    ]
    seen_actions = set()
    for name, consts in TIERS[chk.tier]:
        wd = os.path.join(chk.scratch, name)
        dot = os.path.join(wd, 'g.dot')
        cfg = tla.cfg_text(consts, invariants=['Laws', 'LawCps'])
        r = tla.require_ok(tla.run_tlc('Strings', cfg, wd, dump_dot=dot), f'Strings/{name}', min_distinct=100)
        chk.model(f'Strings/{name}', r)
        g = tla.load_dot(dot)
        os.remove(dot)
        # TLC writes the edges in thread order: sort them so that the spelling rotation is deterministic
        skey = {sid: repr(sorted(st['cur'].items())) for sid, st in g.states.items()}
        g.edges.sort(key=lambda e: (skey[e[0]], e[2], e[3]))
        msgs = spec_oracles(g)
        if msgs:
            raise tla.MachineryError(f'spec/Strings disagrees with a python oracle: {msgs[:5]}')
        has_out = {e[0] for e in g.edges}
        producers: dict[int, list] = {}
        for s, d, a, args in g.edges:
            if d in has_out and s != d and a != 'ConcatNum10':
                lst = producers.setdefault(d, [])
                fnm = (a, args[0] if a in ('Fn1', 'Fn2') else None)
                if len(lst) < 3 and all((x[1], x[2][0] if x[1] in ('Fn1', 'Fn2') else None) != fnm for x in lst):
                    lst.append((s, a, args))
        G.update(states=g.states, edges=g.edges, producers=producers, all_versions=(chk.tier == 'thorough'))
        n = len(g.edges)
        nontrivial = set()
        for s, d, a, args in g.edges:
            seen_actions.add(a)
            if not trivial(g.states[s]['cur'], g.states[d]['cur']):
                nontrivial.add((s, a, args))
        chk.add('transitions', n)
        chk.add('traces_validated_against_impl', n)
        chk.add('distinct_nontrivial', len(nontrivial))
        nt_edges = [e for e in g.edges[:: max(1, n // 4000)] if not trivial(g.states[e[0]]['cur'], g.states[e[1]]['cur'])]
        for s, d, a, args in nt_edges[:: max(1, len(nt_edges) // 5)][:5]:
            fn, expr, vs, _ = template(a, args)
            chk.sample(dict(expr=expr, variables={k: dec_var(e) for k, e in dict(vs, s=enc_value(g.states[s]['cur'])).items()},
                            expected=norm_expected(g.states[d]['cur'])))
        step = max(1, (n + 255) // 256)
        results = core.pool_map(worker, [(lo, min(n, lo + step)) for lo in range(0, n, step)])
        oracle_msgs = []
        nested = 0
        for n_eval, n_lx, n_nested, fails, oracle in results:
            chk.add('evaluations', n_eval)
            chk.add('libxml2_evaluations', n_lx)
            nested += n_nested
            oracle_msgs += oracle
            for feat, case, exp, obs in fails:
                chk.fail(feat, case, exp, obs, what=f"{case['expr']} {json.dumps(case['variables'])[:160]}")
        chk.add('nested_chain_evaluations', nested)
        if oracle_msgs:
            raise tla.MachineryError(f'spec/Strings disagrees with libxml2 on {len(oracle_msgs)} vectors: {oracle_msgs[:5]}')
        print(f'  {name}: states={r.distinct} edges={n} nested={nested} tlc={r.wall_s:.1f}s', flush=True)
        G.clear()
    missing = EXPECTED_ACTIONS - seen_actions
    if missing:
        raise tla.MachineryError(f'actions never fired in the Strings graph (vacuous): {sorted(missing)}')
    chk.coverage['exhaustive'] = True
    chk.coverage['rule'] = ('every edge of the TLC graph of Strings (string x function x second string / map pair / numeric grid) is one case, '
                            'replayed with the 1.0/2.0/3.1 parsers in plain, collation-argument, exact-numeric and nested-call spellings and through libxml2; '
                            'distinct non-trivial = distinct (source, action, arguments) whose expected value is not the unchanged source, "", false or ()')
