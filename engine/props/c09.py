"""C09 -- string functions agree with their F&O definitions on all Unicode strings.

Spec: spec/Strings.tla (value-state machine: the state is the current string as Seq of code
points, or the empty sequence, or a code point sequence; actions Fn1(f), Fn2(f, t),
Translate(m, r), Substring2(a), Substring3(a, b), ConcatNum(a), ConcatNum10(a), ConcatBool(b),
CpToStr, Rejoin(t); the identities and laws quoted by the property are TLC invariants).  The
dumped graph is the test plan.  EVERY edge  s --Act(args)--> v  is replayed on the real code:

  * strings / numbers / code point lists are passed as VARIABLES ($s $t $m $r $a $b $c), so no
    literal escaping is involved; parsers 1.0 (functions that exist there), 2.0 and 3.1;
    spellings: plain, explicit code point collation argument, exact numerics
    (xs:integer / xs:decimal instead of xs:double), and NESTED: the source string spelled as
    the function call that produced it along another edge (chains of depth 2, e.g.
    codepoints-to-string(string-to-codepoints($s0)), substring(concat($s0,$t0),$a)).
  * second oracle AND property clause: the same vectors through libxml2 (lxml) for the
    XPath 1.0 functions.  spec != libxml2 => MachineryError; elementpath 1.0 != spec(=libxml2)
    => violation.  The only point where XPath 1.0 and F&O genuinely differ inside the model is
    string(+-INF) = 'Infinity' / '-Infinity' (XPath 1.0 sec. 4.2) vs 'INF' / '-INF': the spec
    carries both rules (Lex / Lex10, action ConcatNum10 is replayed on the 1.0 side only,
    ConcatNum with an infinite operand on the 2.0+ side only).
  * further second oracles for the SPEC: python's UTF-8 codec for the %HH octets, str.upper /
    str.lower (Unicode database) for the case pairs of the alphabet, float() of the numeric
    tokens for the canonical lexical forms.  Disagreement = MachineryError.

  * REPEATED EVALUATION of one call site (a function token keeps no state between evaluations):
    the edges are grouped into batches that share the arguments at the positions spelled as
    LITERALS ('abc', 2.5, xs:double('INF')) and differ at the positions spelled as variables;
    every literal/variable mask of every function is used.  A batch is evaluated (a) as ONE
    expression `for $k in 1 to n return f($v0[$k], 'literal', $v2[$k])`, compared item by item
    with the TLC values, and (b) as ONE parsed Selector (1.0 parser where the function exists)
    evaluated n times with different variable bindings.
  * URI family: all strings <= UriLen over {'%', '2', '0', 'F', 'f', 'G', 'a', ' '} ('%20', '%4G',
    'a%2F' ...) through encode-for-uri / iri-to-uri / escape-html-uri; the spec escapes per
    character (LawUriSplit: no look-ahead, '%' is always %25 for encode-for-uri, never escaped
    by the other two).
  * NODE-SET ARGUMENTS (XPath 1.0): the spec's doc family (context element x with children b, c,
    d and attribute k; string(node-set) = string-value of the first node) is replayed with the
    1.0 parser and the 2.0 parser in compatibility mode on xml.etree and lxml trees: relative
    paths b c d . @k as arguments of every 1.0 string function (multi-node arguments in every
    position), one parsed Selector over all context elements, and the predicate spelling
    /r/x[f(b, c) = $e]; libxml2 is second oracle for all of it.

Error codes are not named by the property: only the outcome class is compared for FOCH0001.
Excluded (property): case mapping beyond ASCII letters, collations other than the code point
collation (the parsers are built with default_collation = code point collation so that the
environment's locale cannot leak in), normalize-unicode.
"""
from __future__ import annotations

import json
import os
import zlib
from decimal import Decimal

from .. import core, tla

CODEPOINT = 'http://www.w3.org/2005/xpath-functions/collation/codepoint'
ALL_ACTS = {"fn1", "fn2", "translate", "substring", "concatx", "rejoin", "cps"}
EXTRA_ACTS = {"uri", "doc", "coll", "case", "edge", "ctx"}
# case-mapping family: capital sigma, alpha, a, space, combining acute (case-ignorable), sharp s, I with dot,
# dotless i, ligature ff, n preceded by apostrophe, alpha with ypogegrammeni, Dz with caron (titlecase), Georgian, Cherokee
CASE_ALPHA = {931, 913, 97, 32, 769, 223, 304, 305, 64256, 329, 8064, 453, 7312, 5024}
LIBXML2_WRONG_TOKENS = {'0.49999999999999994'}    # libxml2 rounds with floor(x + 0.5) in double arithmetic: 1 instead of 0
ASCII_CI = 'http://www.w3.org/2005/xpath-functions/collation/html-ascii-case-insensitive'
COLLATION_URI = {'codepoint': CODEPOINT, 'ascii-ci': ASCII_CI}
ALPHA_C = {97, 65, 98, 128512}
# legal boundary code points of the XML Char production (spec: LegalBoundary)
LEGAL_BOUNDARY = {9, 10, 13, 32, 127, 128, 133, 159, 55295, 57344, 64975, 64976, 65007, 65008, 65533, 65536, 131070, 131071, 1114111}
URI_ALPHA = {37, 50, 48, 70, 102, 71, 97, 32}       # % 2 0 F f G a space
A12 = {97, 98, 65, 49, 32, 9, 10, 769, 128512, 37, 47, 160}
A8 = {97, 98, 65, 32, 10, 769, 128512, 160}
A2Q = {97, 32, 769, 128512}
A2T = {97, 65, 32, 769, 128512}
A6 = {97, 98, 32, 769, 128512, 160}
A9T = {97, 98, 65, 32, 10, 769, 128512, 37, 160}
SWEEP = set(range(32, 127)) | {9, 10, 13}
EVERY = set(A12) | {0, 66} | SWEEP | LEGAL_BOUNDARY


def _parts(alpha, n, with_zero=True):
    """first-code-point partitions; the first part also owns "", (), the code point sequences,
    the printable-ASCII sweep and the upper-case images"""
    al = sorted(alpha)
    k = (len(al) + n - 1) // n
    out = []
    for i in range(0, len(al), k):
        p = set(al[i:i + k])
        if 98 in p:
            p.add(66)
        if 97 in p:
            p.add(65)
        if i == 0 and with_zero:
            p |= {0} | ((SWEEP | LEGAL_BOUNDARY) - set(alpha) - {65, 66})
        out.append(p)
    return out


def _tiers():
    quick = [('L3', dict(MaxLen=3, Alpha=A8, Alpha2=A2Q, AlphaM={97, 32, 128512}, GridName='small',
                         Sweep=True, Part=EVERY, UriAlpha=URI_ALPHA, UriLen=4, DocLen=3, AlphaC=ALPHA_C, CaseAlpha=CASE_ALPHA, Acts=ALL_ACTS | EXTRA_ACTS))]
    thorough = []
    # all strings <= 3 over the full alphabet x all second strings <= 2 over 9 character classes x full grid
    for i, p in enumerate(_parts(A12, 3, with_zero=False)):
        thorough.append((f'L3-full-p{i}', dict(MaxLen=3, Alpha=A12, Alpha2=A9T, AlphaM={97, 98, 32, 128512},
                                              GridName='full', Sweep=False, Part=p, UriAlpha=URI_ALPHA, UriLen=1, DocLen=0,
                                              AlphaC=ALPHA_C, CaseAlpha=CASE_ALPHA, Acts=ALL_ACTS)))
    # "", (), the sweep, the code point boundaries and the uri / doc / coll / case / edge / ctx families
    thorough.append(('L3-families', dict(MaxLen=3, Alpha=A12, Alpha2=A9T, AlphaM={97, 98, 32, 128512}, GridName='full', Sweep=True,
                                        Part={0} | ((SWEEP | LEGAL_BOUNDARY) - set(A12) - {65, 66}), UriAlpha=URI_ALPHA, UriLen=5,
                                        DocLen=4, AlphaC=ALPHA_C, CaseAlpha=CASE_ALPHA, Acts=ALL_ACTS | EXTRA_ACTS)))
    # all strings <= 4 over 6 character classes x second strings <= 2 over 5 x full grid
    for i, p in enumerate(_parts(A6, 2, with_zero=False)):
        thorough.append((f'L4-p{i}', dict(MaxLen=4, Alpha=A6, Alpha2=A2T, AlphaM={97, 32, 128512},
                                          GridName='full', Sweep=False, Part=p, UriAlpha=URI_ALPHA, UriLen=1, DocLen=0, AlphaC=ALPHA_C, CaseAlpha=CASE_ALPHA,
                                          Acts=ALL_ACTS)))
    return {'quick': quick, 'thorough': thorough}


TIERS = _tiers()

IN10_F1 = {'normalize-space', 'string-length'}
IN10_F2 = {'contains', 'starts-with', 'substring-before', 'substring-after', 'concat'}
COLLATION_F2 = {'contains', 'starts-with', 'ends-with', 'substring-before', 'substring-after', 'compare'}
SPECIALS = {'INF', '-INF', 'NaN'}
EXPECTED_ACTIONS = {'Fn1', 'Fn2', 'Translate', 'Substring2', 'Substring3', 'ConcatNum', 'ConcatNum10',
                    'ConcatBool', 'CpToStr', 'Rejoin', 'CollFn2', 'CollFn1', 'CollTranslate', 'CollSubstring', 'SubstringE2', 'SubstringE3', 'CtxFn', 'CtxNum', 'CtxBool', 'DocCtx', 'DocFn1', 'DocFn2', 'DocTranslate', 'DocConcat3', 'DocSubstring'}


# ---------------------------------------------------------------------------------------
# binding tables (dumb 1:1 rendering)

def text(cps) -> str:
    return ''.join(map(chr, cps))


def enc_value(v):
    """abstract state value -> encoded variable value ['str', [cps]] | ['empty'] | ['cps', [...]]"""
    t = v['t']
    if t == 'str':
        return ['str', list(v['s'])]
    if t == 'empty':
        return ['empty']
    if t == 'cps':
        return ['cps', list(v['c'])]
    raise ValueError(t)


def dec_var(e):
    k = e[0]
    if k == 'str':
        return text(e[1])
    if k == 'empty':
        return []
    if k == 'cps':
        return list(e[1])
    if k == 'dbl':
        return float(e[1])
    if k == 'int':
        return int(e[1])
    if k == 'dec':
        return Decimal(e[1])
    if k == 'seq':
        return [dec_var(x) for x in e[1]]
    if k == 'bool':
        return bool(e[1])
    raise ValueError(k)


def num_exact(tok: str):
    """xs:integer / xs:decimal spelling of a finite grid token"""
    return ['int', tok] if '.' not in tok and 'e' not in tok else ['dec', tok]


def template(action: str, args: tuple, sfx: str = ''):
    """-> (fn, expression text with $s, variables (encoded, without s), in_xpath10)"""
    v = lambda n: f'${n}{sfx}'  # noqa: E731
    if action == 'Fn1':
        f = args[0]
        return f, f'{f}($s)', {}, f in IN10_F1
    if action == 'Fn2':
        f, t = args
        return f, f'{f}($s,{v("t")})', {'t' + sfx: ['str', list(t)]}, f in IN10_F2
    if action == 'Translate':
        m, r = args
        return 'translate', f'translate($s,{v("m")},{v("r")})', {'m' + sfx: ['str', list(m)], 'r' + sfx: ['str', list(r)]}, True
    if action == 'Substring2':
        return 'substring', f'substring($s,{v("a")})', {'a' + sfx: ['dbl', args[0]]}, True
    if action == 'Substring3':
        return 'substring', f'substring($s,{v("a")},{v("b")})', {'a' + sfx: ['dbl', args[0]], 'b' + sfx: ['dbl', args[1]]}, True
    if action in ('ConcatNum', 'ConcatNum10'):
        return 'concat', f'concat($s,{v("a")})', {'a' + sfx: ['dbl', args[0]]}, True
    if action == 'ConcatBool':
        return 'concat', f'concat($s,{"true()" if args[0] else "false()"})', {}, True
    if action == 'CpToStr':
        return 'codepoints-to-string', 'codepoints-to-string($s)', {}, False
    if action == 'SubstringE2':
        return 'substring', f'substring($s,{v("a")})', {'a' + sfx: ['dbl', args[0]]}, True
    if action == 'SubstringE3':
        return 'substring', f'substring($s,{v("a")},{v("b")})', {'a' + sfx: ['dbl', args[0]], 'b' + sfx: ['dbl', args[1]]}, True
    if action in ('CtxFn', 'CtxNum', 'CtxBool'):
        return args[0], f'{args[0]}()', {}, False
    if action == 'CollFn2':
        f, t, d, a = args
        if a == 'none':
            return f, f'{f}($s,{v("t")})', {'t' + sfx: ['str', list(t)]}, False
        return f, f'{f}($s,{v("t")},{v("k")})', {'t' + sfx: ['str', list(t)], 'k' + sfx: ['str', list(map(ord, COLLATION_URI[a]))]}, False
    if action == 'CollFn1':
        return args[0], f'{args[0]}($s)', {}, False
    if action == 'CollTranslate':
        m, r = args[0], args[1]
        return 'translate', f'translate($s,{v("m")},{v("r")})', {'m' + sfx: ['str', list(m)], 'r' + sfx: ['str', list(r)]}, False
    if action == 'CollSubstring':
        return 'substring', f'substring($s,{v("a")})', {'a' + sfx: ['dbl', args[0]]}, False
    if action == 'Rejoin':
        t = args[0]
        return 'rejoin', f'concat(substring-before($s,{v("t")}),{v("t")},substring-after($s,{v("t")}))', \
            {'t' + sfx: ['str', list(t)]}, True
    raise ValueError(action)


def norm_expected(v):
    t = v['t']
    if t == 'str':
        return ('str', tuple(v['s']))
    if t == 'bool':
        return ('bool', v['b'])
    if t == 'int':
        return ('int', v['i'])
    if t == 'cps':
        return ('cps', tuple(v['c'])) if v['c'] else ('seq', ())
    if t == 'empty':
        return ('seq', ())
    if t == 'err':
        return ('err', v['code'])
    raise ValueError(t)


def project(r):
    """real result -> abstract value"""
    if isinstance(r, bool):
        return ('bool', r)
    if isinstance(r, int):
        return ('int', r)
    if isinstance(r, float):
        return ('int', int(r)) if r == r and abs(r) != float('inf') and r == int(r) else ('float', repr(r))
    if isinstance(r, str):
        if type(r) is not str and type(r).__name__ not in ('_ElementUnicodeResult', '_ElementStringResult'):
            return ('other', type(r).__name__)
        return ('str', tuple(map(ord, r)))
    if isinstance(r, list):
        if not r:
            return ('seq', ())
        if all(isinstance(x, int) and not isinstance(x, bool) for x in r):
            return ('cps', tuple(r))
        return ('other', 'list:' + ','.join(type(x).__name__ for x in r[:3]))
    return ('other', type(r).__name__)


def conforms(exp, obs):
    """None if the observation conforms, else an outcome class"""
    if exp[0] == 'err':
        if obs[0] == 'err':
            return None          # the property does not name the code
        return f'escaped:{obs[1]}' if obs[0] == 'escaped' else 'value_instead_of_error'
    if obs[0] == 'err':
        return f'error:{obs[1]}'
    if obs[0] in ('escaped', 'other', 'float'):
        return f'{obs[0]}:{obs[1]}'
    if exp[0] == 'cps' and obs[0] == 'int' and len(exp[1]) == 1:
        return None if exp[1][0] == obs[1] else 'value'
    if exp[0] != obs[0]:
        return f'type:{obs[0]}'
    return None if exp[1] == obs[1] else 'value'


# ---------------------------------------------------------------------------------------
# implementation drivers (public API only)

_sel_cache: dict = {}
_lx_cache: dict = {}
_lx_root = None
_parsers = None


def parsers():
    global _parsers
    if _parsers is None:
        from elementpath import XPath1Parser, XPath2Parser
        from elementpath.xpath31 import XPath31Parser
        _parsers = {'1.0': XPath1Parser, '2.0': XPath2Parser, '3.1': XPath31Parser}
    return _parsers


def evaluate(expr: str, version: str, variables: dict, fresh: bool = False):
    """outcome: abstract value | ('err', code) | ('escaped', ExceptionClass)"""
    import elementpath
    from elementpath.exceptions import ElementPathError
    pv, _, dc = version.partition('@')          # '3.1@ascii-ci': parser version @ default collation of the static context
    kw = {} if pv == '1.0' else {'default_collation': COLLATION_URI[dc or 'codepoint']}
    vs = {k: dec_var(e) for k, e in variables.items()}
    item = vs.pop('.', 1)                      # '.' = the context item (an atomic value)
    try:
        if fresh:
            r = elementpath.select(None, expr, item=item, parser=parsers()[pv], variables=vs, **kw)
        else:
            sel = _sel_cache.get((expr, version))
            if sel is None:
                sel = _sel_cache[(expr, version)] = elementpath.Selector(expr, parser=parsers()[pv], **kw)
            r = sel.select(None, item=item, variables=vs)
    except ElementPathError as e:
        return ('err', (e.code or '').split(':')[-1])
    except RecursionError:
        return ('escaped', 'RecursionError')
    except Exception as e:  # noqa
        return ('escaped', type(e).__name__)
    return project(r)


def libxml2(expr: str, variables: dict):
    global _lx_root
    from lxml import etree
    if _lx_root is None:
        _lx_root = etree.XML('<r/>')
    xp = _lx_cache.get(expr)
    if xp is None:
        xp = _lx_cache[expr] = etree.XPath(expr)
    try:
        r = xp(_lx_root, **{k: dec_var(e) for k, e in variables.items()})
    except ValueError:
        return None          # lxml refuses the variable value (e.g. a C1 control): no second oracle for this vector
    except Exception as e:  # noqa
        return ('escaped', type(e).__name__ + ':' + str(e)[:60])
    return project(r)


def new_selector(expr: str, version: str):
    """one parsed token tree (public Selector), or an outcome tuple if parsing fails"""
    import elementpath
    from elementpath.exceptions import ElementPathError
    try:
        if version == '2.0-compat':
            return elementpath.Selector(expr, parser=parsers()['2.0'], compatibility_mode=True, default_collation=CODEPOINT)
        kw = {} if version == '1.0' else {'default_collation': CODEPOINT}
        return elementpath.Selector(expr, parser=parsers()[version], **kw)
    except ElementPathError as e:
        return ('err', (e.code or '').split(':')[-1])
    except RecursionError:
        return ('escaped', 'RecursionError')
    except Exception as e:  # noqa
        return ('escaped', type(e).__name__)


def run_selector(sel, root, raw: bool = False, **kw):
    """-> abstract outcome of sel.select(root, **kw) (raw: the python result itself)"""
    from elementpath.exceptions import ElementPathError
    if isinstance(sel, tuple):
        return sel
    try:
        r = sel.select(root, **kw)
    except ElementPathError as e:
        return ('err', (e.code or '').split(':')[-1])
    except RecursionError:
        return ('escaped', 'RecursionError')
    except Exception as e:  # noqa
        return ('escaped', type(e).__name__)
    return ('raw', r) if raw else project(r)


# ---------------------------------------------------------------------------------------
# literal spellings and call sites (for the repeated-evaluation batches)

def str_lit(cps, version: str):
    """XPath string literal, None if it cannot be written (XPath 1.0 has no quote escape)"""
    t = text(cps)
    if version == '1.0':
        if "'" not in t:
            return "'" + t + "'"
        return '"' + t + '"' if '"' not in t else None
    return "'" + t.replace("'", "''") + "'"


def num_lit(tok: str, version: str) -> str:
    if tok in SPECIALS:
        if version == '1.0':
            return {'INF': '(1 div 0)', '-INF': '(-1 div 0)', 'NaN': '(0 div 0)'}[tok]
        return f"xs:double('{tok}')"
    return tok          # 2.5 is an xs:decimal literal in XPath 2.0+, a number in XPath 1.0


def call_site(action: str, args: tuple, src):
    """-> (fn, format with {0} {1} .. for the arguments, [(kind, value)], in_xpath10)"""
    s = ('str', tuple(src['s'])) if src['t'] == 'str' else None
    if action == 'Fn1':
        return args[0], args[0] + '({0})', [s], args[0] in IN10_F1
    if action == 'Fn2':
        return args[0], args[0] + '({0},{1})', [s, ('str', args[1])], args[0] in IN10_F2
    if action == 'Translate':
        return 'translate', 'translate({0},{1},{2})', [s, ('str', args[0]), ('str', args[1])], True
    if action == 'Substring2':
        return 'substring', 'substring({0},{1})', [s, ('num', args[0])], True
    if action == 'Substring3':
        return 'substring', 'substring({0},{1},{2})', [s, ('num', args[0]), ('num', args[1])], True
    if action in ('ConcatNum', 'ConcatNum10'):
        return 'concat', 'concat({0},{1})', [s, ('num', args[0])], True
    if action == 'ConcatBool':
        return 'concat', 'concat({0},' + ('true()' if args[0] else 'false()') + ')', [s], True
    if action == 'Rejoin':
        return 'rejoin', 'concat(substring-before({0},{1}),{1},substring-after({0},{1}))', [s, ('str', args[0])], True
    raise ValueError(action)


# literal (L) / variable (V) masks per argument position; at least one V
MASKS = {
    'Fn1': ['V'], 'Fn2': ['VL', 'LV', 'VV'], 'Translate': ['VLV', 'VVL', 'LVV', 'VLL', 'LLV', 'VVV'],
    'Substring2': ['VL', 'LV', 'VV'], 'Substring3': ['VLV', 'VVL', 'LVV', 'VLL', 'VVV'],
    'ConcatNum': ['VL', 'LV', 'VV'], 'ConcatNum10': ['VL', 'VV'], 'ConcatBool': ['V'], 'Rejoin': ['VL', 'LV', 'VV'],
}
BATCH = 6


def enc_arg(kind, value):
    return ['str', list(value)] if kind == 'str' else ['dbl', value]


def items_of(exp):
    """expected abstract value -> the items it contributes to a flattened sequence"""
    if exp[0] == 'cps':
        return [('int', c) for c in exp[1]]
    if exp[0] == 'seq':
        return []
    return [exp]


def project_items(r):
    if not isinstance(r, list):
        r = [r]
    return [project(x) for x in r]


def run_batch(members, mask, for_version, reuse_version, fails):
    """members: [(idx, action, args, src, exp, fn, fmt, cargs, in10)] sharing the literal arguments.
    -> number of evaluations"""
    n_eval = 0
    idx0, action0, args0, src0, exp0, fn, fmt, cargs0, in10 = members[0]
    n = len(members)

    def arg_texts(version, indexed):
        out = []
        for i, (kind, value) in enumerate(cargs0):
            if mask[i] == 'L':
                lit = str_lit(value, version) if kind == 'str' else num_lit(value, version)
                if lit is None:
                    return None
                out.append(lit)
            else:
                out.append(f'$v{i}[$k]' if indexed else f'$v{i}')
        return out

    # (a) one expression, n evaluations of the same call site
    if action0 != 'ConcatNum10':
        at = arg_texts(for_version, True)
        if at is not None:
            expr = f'for $k in 1 to {n} return ' + fmt.format(*at)
            vs = {f'v{i}': ['seq', [enc_arg(*m[7][i]) for m in members]] for i in range(len(cargs0)) if mask[i] == 'V'}
            want = [it for m in members for it in items_of(m[4])]
            sel = new_selector(expr, for_version)
            obs = run_selector(sel, None, raw=True, item=1, variables={k: dec_var(e) for k, e in vs.items()})
            n_eval += n
            got = project_items(obs[1]) if obs[0] == 'raw' else None
            if got != want:
                k = 0
                if got is not None and len(got) == len(want) and all(len(items_of(m[4])) == 1 for m in members):
                    k = next(i for i in range(n) if got[i] != want[i])
                m = members[k]
                out = ('value' if got is not None else (f'error:{obs[1]}' if obs[0] == 'err' else f'{obs[0]}:{obs[1]}'))
                feat = features(m[1], m[2], fn, m[3], m[4], out, for_version, 'for-batch', None)
                feat['mask'] = mask
                case = dict(mode='for', expr=expr, parser=for_version, variables=vs, first_wrong_item=k + 1)
                fails.append((feat, case, want, got if got is not None else obs))
    # (b) one parsed Selector, n variable bindings
    rv = reuse_version
    if action0 == 'ConcatNum10':
        rv = '1.0'
    elif rv == '1.0' and not in10:
        rv = for_version
    at = arg_texts(rv, False) if 'L' in mask or len(mask) == 1 else None
    if at is not None:
        expr = fmt.format(*at)
        sel = new_selector(expr, rv)
        history = []
        for m in members:
            if rv == '1.0' and m[1] == 'ConcatNum' and m[2][0] in ('INF', '-INF'):
                continue
            vs = {f'v{i}': enc_arg(*m[7][i]) for i in range(len(cargs0)) if mask[i] == 'V'}
            history.append(vs)
            obs = run_selector(sel, None, item=1, variables={k: dec_var(e) for k, e in vs.items()})
            n_eval += 1
            out = conforms(m[4], obs)
            if out is not None:
                feat = features(m[1], m[2], fn, m[3], m[4], out, rv, 'token-reuse', None)
                feat['mask'] = mask
                case = dict(mode='reuse', expr=expr, parser=rv, bindings=list(history))
                fails.append((feat, case, m[4], obs))
                break
    return n_eval


def batches_for_range(jobno, lo, hi, fails):
    """group the edges lo..hi-1 into batches sharing their literal arguments and evaluate them"""
    states, edges = G['states'], G['edges']
    thorough = G.get('all_versions')
    buckets: dict = {}
    n_eval = n_batches = 0
    for_version, other = ('2.0', '3.1') if jobno % 2 else ('3.1', '2.0')
    reuse_version = '1.0' if jobno % 3 != 2 else other

    def flush(members, mask):
        nonlocal n_eval, n_batches
        if len(members) >= 2:
            n_eval += run_batch(members, mask, for_version, reuse_version, fails)
            n_batches += 1

    for idx in range(lo, hi):
        s, d, action, args = edges[idx]
        src = states[s]['cur']
        if action not in MASKS or src['t'] != 'str' or (thorough and idx % 2):
            continue
        dst = states[d]['cur']
        if dst['t'] == 'err':
            continue
        fn, fmt, cargs, in10 = call_site(action, args, src)
        masks = MASKS[action]
        mask = masks[(jobno + zlib.crc32((action + fn).encode())) % len(masks)]
        key = (action, fmt, mask, tuple(cargs[i] for i in range(len(cargs)) if mask[i] == 'L'))
        lst = buckets.setdefault(key, [])
        lst.append((idx, action, args, src, norm_expected(dst), fn, fmt, cargs, in10))
        if len(lst) >= BATCH:
            flush(lst, mask)
            del buckets[key]
    for key in sorted(buckets, key=repr):
        flush(buckets[key], key[2])
    return n_eval, n_batches


# ---------------------------------------------------------------------------------------
# node-set argument family (XPath 1.0 parser / compatibility mode, libxml2 as second oracle)

def doc_xml(docs) -> str:
    return '<r>' + ''.join('<x k="k0">' + ''.join(f'<{n}>{n}{i + 1}</{n}>' for i, n in enumerate(kids)) + '</x>'
                           for kids in docs) + '</r>'


def doc_expr(action: str, args: tuple) -> str:
    if action == 'DocFn1':
        return f'{args[0]}({args[1]})'
    if action == 'DocFn2':
        return f'{args[0]}({args[1]}, {args[2]})'
    if action == 'DocTranslate':
        return 'translate({}, {}, {})'.format(*args)
    if action == 'DocConcat3':
        return 'concat({}, {}, {})'.format(*args)
    if action == 'DocSubstring':
        return 'substring({}, string-length({}))'.format(*args)
    if action == 'DocCtx':                     # XPath 2.0+: the first node selected by the path is the context item
        return f'({args[1]})[1]/{args[0]}()'
    raise ValueError(action)


_doc_trees: dict = {}


def doc_trees(docs):
    key = tuple(docs)
    t = _doc_trees.get(key)
    if t is None:
        from xml.etree import ElementTree
        from lxml import etree
        xml = doc_xml(docs)
        et, lx = ElementTree.XML(xml), etree.XML(xml)
        t = _doc_trees[key] = dict(xml=xml, etree=(et, list(et)), lxml=(lx, list(lx)))
    return t


def doc_features(action, args, docs_kids, version, tree, spelling, outcome):
    """docs_kids: the context elements involved (one for an item evaluation, all of them for a predicate)"""
    paths = args[1:] if action in ('DocFn1', 'DocFn2', 'DocCtx') else args
    count = lambda kids, p: sum(1 for n in kids if n == p) if p in ('b', 'c', 'd') else 1   # noqa: E731
    multi = [any(count(k, p) >= 2 for k in docs_kids) for p in paths]
    empty = [any(count(k, p) == 0 for k in docs_kids) for p in paths]
    return dict(fn=(args[0] if action in ('DocFn1', 'DocFn2', 'DocCtx') else action[3:].lower()), action=action,
                parser=version, tree=tree, spelling=spelling, outcome=outcome,
                multinode_arg=any(multi), multinode_nonlast_arg=any(multi[:-1]),
                empty_nodeset_arg=any(empty), empty_nodeset_arg23=any(empty[1:]))


DOC_GROUP = 8      # context elements per document (building the node tree of a document dominates the cost)


def doc_worker(job):
    """job: list of (action, args); G['docs'] = [kids], G['doc_exp'][(action, args)] = [expected per doc].
    The context elements are spread over several documents; ONE parsed Selector per (expression,
    parser) is evaluated on every context element of every document."""
    docs = G['docs']
    groups = [(lo, docs[lo:lo + DOC_GROUP]) for lo in range(0, len(docs), DOC_GROUP)]
    fails, oracle = [], []
    n_eval = n_lx = 0
    for jno, (action, args) in enumerate(job):
        expr = doc_expr(action, args)
        exps_all = G['doc_exp'][(action, args)]
        if action == 'DocCtx':                 # zero-argument forms on node context items (2.0+ path step)
            for version, tree in (('2.0', 'etree'), ('3.1', 'lxml')):
                sel = new_selector(expr, version)
                for lo, gdocs in groups:
                    root, xs = doc_trees(gdocs)[tree]
                    for j, x in enumerate(xs):
                        obs = run_selector(sel, root, raw=True, item=x)
                        if obs[0] == 'raw':       # a path returns a sequence: one item (or none)
                            obs = project(obs[1][0] if isinstance(obs[1], list) and len(obs[1]) == 1 else obs[1])
                        n_eval += 1
                        out = conforms(exps_all[lo + j], obs)
                        if out is not None:
                            feat = doc_features(action, args, [gdocs[j]], version, tree, 'item', out)
                            case = dict(mode='doc', xml=doc_trees(gdocs)['xml'], expr=expr, parser=version, tree=tree, item_index=j)
                            fails.append((feat, case, exps_all[lo + j], obs))
            continue
        configs = (('1.0', 'etree'), ('1.0', 'lxml'), ('2.0-compat', 'etree' if jno % 2 else 'lxml'))
        sels = {version: new_selector(expr, version) for version in ('1.0', '2.0-compat')}
        for gno, (lo, gdocs) in enumerate(groups):
            trees = doc_trees(gdocs)
            lx_root, lx_xs = trees['lxml']
            exps = exps_all[lo:lo + len(gdocs)]
            for j, x in enumerate(lx_xs):               # libxml2 on every context element
                lx = project(x.xpath(expr))
                n_lx += 1
                if conforms(exps[j], lx) is not None:
                    oracle.append(f'{expr} on {gdocs[j]}: spec {exps[j]} libxml2 {lx}')
            for version, tree in configs:
                root, xs = trees[tree]
                for j, x in enumerate(xs):
                    obs = run_selector(sels[version], root, item=x)
                    n_eval += 1
                    out = conforms(exps[j], obs)
                    if out is not None:
                        feat = doc_features(action, args, [gdocs[j]], version, tree, 'item', out)
                        case = dict(mode='doc', xml=trees['xml'], expr=expr, parser=version, tree=tree, item_index=j)
                        fails.append((feat, case, exps[j], obs))
            # predicate spelling: which context elements give the value e (expected set from the TLC values)
            distinct = sorted({e for e in exps if e[0] in ('str', 'int')}, key=repr)
            e = distinct[(jno + gno) % len(distinct)] if distinct else ('bool', True)
            if e[0] == 'bool':
                pexpr, pvars = f'/r/x[{expr}]', {}
                want = [j for j, v in enumerate(exps) if v == ('bool', True)]
            else:
                pexpr = f'/r/x[{expr} = $e]'
                pvars = {'e': text(e[1]) if e[0] == 'str' else float(e[1])}
                want = [j for j, v in enumerate(exps) if v == e]
            lxi = [lx_xs.index(x) for x in lx_root.xpath(pexpr, **pvars)]
            n_lx += 1
            if lxi != want:
                oracle.append(f'{pexpr} {pvars} on {gdocs}: spec {want} libxml2 {lxi}')
            version, tree = configs[(jno + gno) % 3]
            root, xs = trees[tree]
            obs = run_selector(new_selector(pexpr, version), root, raw=True, variables=pvars)
            n_eval += len(xs)
            got = None
            if obs[0] == 'raw' and isinstance(obs[1], list):
                try:
                    got = [xs.index(x) for x in obs[1]]
                except ValueError:
                    got = None
            if got != want:
                out = 'value' if obs[0] == 'raw' else f'{obs[0]}:{obs[1]}'
                wrong = sorted(set(got or []) ^ set(want))
                feat = doc_features(action, args, [gdocs[j] for j in wrong] if wrong and got is not None else gdocs,
                                    version, tree, 'predicate', out)
                case = dict(mode='doc-predicate', xml=trees['xml'], expr=pexpr, parser=version, tree=tree,
                            variables={k: (['str', list(map(ord, v))] if isinstance(v, str) else ['dbl', repr(v)]) for k, v in pvars.items()})
                fails.append((feat, case, want, got if got is not None else str(obs)[:200]))
    return n_eval, n_lx, fails, oracle


# ---------------------------------------------------------------------------------------
# abstract features of a failing case (known findings are sub-patterns of these)

def num_class(tok: str) -> str:
    if tok == 'NaN':
        return 'nan'
    if tok == 'INF':
        return 'pinf'
    if tok == '-INF':
        return 'ninf'
    q = int(Decimal(tok) * 4)
    if q % 4 == 0:
        return 'int'
    if q % 4 != 2:
        return 'frac'
    return 'tie_even' if ((q - 2) // 4) % 2 == 0 else 'tie_odd'     # x.5 whose floor is even / odd


def features(action, args, fn, src, exp, outcome, version, spelling, inner):
    s = src.get('s', src.get('c', ()))
    f = dict(fn=fn, action=action, parser=('1.0' if version.startswith('1.0') else '2+'), src=src['t'], spelling=spelling,
             outcome=outcome, expected=exp[0], inner=inner)
    if fn == 'normalize-space':
        f['has_nbsp'] = 160 in s       # Unicode White_Space that is not XML whitespace
    if action.startswith('Coll'):
        f['default_collation'] = args[-2] if action == 'CollFn2' else args[-1]
        f['collation_arg'] = args[-1] if action == 'CollFn2' else None
    if action in ('Substring2', 'Substring3', 'SubstringE2', 'SubstringE3'):
        f['gig_arg'] = '1e300' in args
        f['nargs'] = len(args) + 1
        f['a_class'] = num_class(args[0])
        f['b_class'] = num_class(args[1]) if len(args) > 1 else None
        f['tie_even_arg'] = 'tie_even' in (f['a_class'], f['b_class'])    # an argument x.5 with even floor(x)
    elif action in ('ConcatNum', 'ConcatNum10'):
        f['a_class'] = num_class(args[0])
    elif action == 'Translate':
        m, r = args
        f['map_repeat'] = len(set(m)) != len(m)
        f['map_vs_trans'] = 'equal' if len(m) == len(r) else 'longer' if len(m) > len(r) else 'shorter'
    return f


# ---------------------------------------------------------------------------------------
# worker: replays a range of edges of the (fork-inherited) graph

G = {}     # 'states', 'edges', 'producers', 'has_out'


def spellings(idx, src, action, args, exp_of=None):
    """-> list of (spelling, expr, variables, versions)"""
    fn, expr, vs, in10 = template(action, args)
    out = []
    srcv = enc_value(src)
    vs = dict(vs, s=srcv)
    alt, other = ('2.0', '3.1') if idx % 2 else ('3.1', '2.0')
    is_str = src['t'] == 'str'
    if action == 'ConcatNum10':
        return fn, [('plain', expr, vs, ['1.0'])] if is_str else []
    if action in ('CtxFn', 'CtxNum', 'CtxBool'):
        f = args[0]
        item = srcv if action == 'CtxFn' else (['dbl', args[1]] if action == 'CtxNum' else ['bool', args[1]])
        e = ['str', list(exp_of[1])] if exp_of[0] == 'str' else ['int', str(exp_of[1])]
        return fn, [('ctx-item', expr, {'.': item}, [alt, other]),                       # select(None, 'f()', item=...)
                    ('ctx-map', f'$x ! {f}()', {'x': item}, ['3.1']),                    # simple map operator
                    ('ctx-pred', f'count($x[{f}() = $e])', {'x': item, 'e': e}, ['2.0', '3.1'])]   # predicate on an atomic
    if action in ('SubstringE2', 'SubstringE3'):
        ex = dict(vs)
        for name, tok in zip('ab', args):
            ex[name] = num_exact(tok)
        return fn, [('plain', expr, vs, (['1.0'] if is_str else []) + ['2.0', '3.1']), ('exact', expr, ex, [alt])]
    if action.startswith('Coll'):
        d = args[-2] if action == 'CollFn2' else args[-1]
        return fn, [('plain', expr, vs, [f'{alt}@{d}', f'{other}@{d}'])]
    # the 2.0 and 3.1 parsers share one implementation of these functions: quick alternates them
    versions = ['2.0', '3.1'] if G.get('all_versions') and action != 'Fn2' else [other]
    if in10 and is_str and not (action == 'ConcatNum' and args[0] in ('INF', '-INF')):
        versions = ['1.0'] + versions
    out.append(('plain', expr, vs, versions))
    if action == 'Fn2' and fn in COLLATION_F2:
        out.append(('collation', f'{fn}($s,$t,$k)', dict(vs, k=['str', list(map(ord, CODEPOINT))]), [alt]))
    if action in ('Substring2', 'Substring3', 'ConcatNum'):
        ex = dict(vs)
        changed = False
        for name, tok in zip('ab', args):
            if tok not in SPECIALS:
                ex[name] = num_exact(tok)
                changed = True
        if changed:
            out.append(('exact', expr, ex, [alt]))
    if src['t'] == 'empty' and action != 'CpToStr':
        lit = dict(vs)
        del lit['s']
        out.append(('literal-empty', expr.replace('$s', '()'), lit, [alt]))
    return fn, out


def worker(job):
    jobno, lo, hi = job
    states, edges, producers = G['states'], G['edges'], G['producers']
    fails, oracle = [], []
    n_eval = n_lx = n_nested = 0
    inner_ok: dict = {}
    for idx in range(lo, hi):
        s, d, action, args = edges[idx]
        src, dst = states[s]['cur'], states[d]['cur']
        if src['t'] == 'doc':
            continue
        exp = norm_expected(dst)
        fn, sps = spellings(idx, src, action, args, exp)
        # chains of depth 2: the source spelled as the call that produced it along another edge
        prods = producers.get(s)
        if prods and action != 'ConcatNum10' and not action.startswith(('Coll', 'Ctx', 'SubstringE')) and idx % 4 in (0, 3):
            ps, pact, pargs = prods[idx % len(prods)]
            psrc = states[ps]['cur']
            pfn, pexpr, pvs, pin10 = template(pact, pargs, '0')
            pexpr = pexpr.replace('$s', '$s0')
            pvs = dict(pvs, s0=enc_value(psrc))
            _, oexpr, ovs, oin10 = template(action, args)
            nvers = ['2.0' if idx % 2 else '3.1']
            if pin10 and oin10 and psrc['t'] == 'str' and (idx % 3 == 0) and \
                    not (action == 'ConcatNum' and args[0] in ('INF', '-INF')):
                nvers.append('1.0')
            for nv in nvers:
                key = (ps, pact, pargs, nv)
                ok = inner_ok.get(key)
                if ok is None:
                    n_eval += 1
                    ok = inner_ok[key] = conforms(norm_expected(src), evaluate(pexpr, nv, pvs)) is None
                if ok:       # prefix hygiene: a failing inner call is reported on its own edge
                    sps.append((f'nested:{pfn}', oexpr.replace('$s', pexpr), dict(ovs, **pvs), [nv]))
                    n_nested += 1
        lx_done = False
        for spelling, expr, vs, versions in sps:
            if '1.0' in versions and not lx_done and spelling == 'plain' and not (LIBXML2_WRONG_TOKENS & set(map(str, args))):
                lx_done = True
                lx = libxml2(expr, vs)
                n_lx += lx is not None
                if lx is not None and conforms(exp, lx) is not None:
                    oracle.append(f'{expr} {vs}: spec {exp} libxml2 {lx}')
            for v in versions:
                fresh = (idx + len(expr)) % 16 == 0
                obs = evaluate(expr, v, vs, fresh=fresh)
                n_eval += 1
                out = conforms(('int', 1) if spelling == 'ctx-pred' else exp, obs)
                if out is not None:
                    again = evaluate(expr, v, vs, fresh=not fresh)
                    inner = spelling.split(':', 1)[1] if spelling.startswith('nested:') else None
                    feat = features(action, args, fn, src, exp, out, v, spelling.split(':')[0], inner)
                    case = dict(expr=expr, parser=v, variables=vs, fresh_and_cached_agree=(again == obs))
                    fails.append((feat, case, exp, obs))
    n_beval, n_batches = batches_for_range(jobno, lo, hi, fails)
    return n_eval, n_lx, n_nested, fails, oracle, n_beval, n_batches


def spec_oracles(g) -> list[str]:
    """python-side cross-checks of the SPEC (not of the code)"""
    msgs = []
    for s, d, action, args in g.edges:
        src, dst = g.states[s]['cur'], g.states[d]['cur']
        if src['t'] != 'str':
            continue
        if action == 'ConcatNum' and src['s'] == ():
            tok = args[0]
            if text(dst['s']) != tok or not (float(tok) == float(tok) or tok == 'NaN'):
                msgs.append(f'Lex({tok}) = {text(dst["s"])!r}')
        elif action == 'Fn1' and args[0] in ('upper-case', 'lower-case') and len(src['s']) > 1:
            want = text(src['s']).upper() if args[0] == 'upper-case' else text(src['s']).lower()
            if text(dst['s']) != want:
                msgs.append(f'{args[0]}({text(src["s"])!r}) spec {text(dst["s"])!r} python (Unicode default case conversion) {want!r}')
        elif action == 'Fn1' and len(src['s']) == 1:
            c = src['s'][0]
            f = args[0]
            if f in ('encode-for-uri', 'iri-to-uri', 'escape-html-uri') and dst['s'] != src['s']:
                want = ''.join('%%%02X' % b for b in chr(c).encode('utf-8'))
                if text(dst['s']) != want:
                    msgs.append(f'{f}(U+{c:04X}) = {text(dst["s"])!r}, UTF-8 codec says {want!r}')
            elif f == 'upper-case' and text(dst['s']) != chr(c).upper():
                msgs.append(f'upper-case(U+{c:04X}) spec {dst["s"]} unicode {chr(c).upper()!r}')
            elif f == 'lower-case' and text(dst['s']) != chr(c).lower():
                msgs.append(f'lower-case(U+{c:04X}) spec {dst["s"]} unicode {chr(c).lower()!r}')
    return msgs


def trivial(src, dst) -> bool:
    if dst['t'] == 'str':
        return dst['s'] == () or (src['t'] == 'str' and dst['s'] == src['s'])
    if dst['t'] == 'bool':
        return dst['b'] is False
    return dst['t'] in ('empty',)


def _tup(x):
    return tuple(_tup(y) for y in x) if isinstance(x, list) else x


def replay_history(rec: dict) -> int:
    """batches (one call site evaluated several times) and node-set argument cases"""
    case, mode = rec['case'], rec['case']['mode']
    print('mode      :', mode, ' parser', case['parser'])
    print('expr      :', case['expr'])
    sel = new_selector(case['expr'], case['parser'])
    if mode == 'for':
        vs = {k: dec_var(e) for k, e in case['variables'].items()}
        obs = run_selector(sel, None, raw=True, item=1, variables=vs)
        got = project_items(obs[1]) if obs[0] == 'raw' else obs
        want = [_tup(x) for x in rec['expected']]
        print('variables :', vs)
        print('expected  :', want)
        print('observed  :', got)
        bad = got != want
    elif mode == 'reuse':
        obs = None
        for vs in case['bindings']:
            vals = {k: dec_var(e) for k, e in vs.items()}
            obs = run_selector(sel, None, item=1, variables=vals)
            print('  binding :', vals, '->', obs)
        want = _tup(rec['expected'])
        print('expected (last binding):', want)
        bad = conforms(want, obs) is not None
    else:
        from xml.etree import ElementTree
        from lxml import etree
        root = ElementTree.XML(case['xml']) if case['tree'] == 'etree' else etree.XML(case['xml'])
        xs = list(root)
        print('document  :', case['xml'][:300])
        if mode == 'doc':
            j = case['item_index']
            obs = run_selector(sel, root, raw=True, item=xs[j])
            if obs[0] == 'raw':
                obs = project(obs[1][0] if isinstance(obs[1], list) and len(obs[1]) == 1 and '/' in case['expr'] else obs[1])
            want = _tup(rec['expected'])
            print(f'context   : x[{j + 1}]  expected {want}  observed {obs}')
            bad = conforms(want, obs) is not None
        else:
            vs = {k: dec_var(e) for k, e in case.get('variables', {}).items()}
            obs = run_selector(sel, root, raw=True, variables=vs)
            got = [xs.index(x) for x in obs[1]] if obs[0] == 'raw' and isinstance(obs[1], list) else obs
            print('variables :', vs, ' expected x indexes', rec['expected'], ' observed', got)
            bad = got != rec['expected']
    if bad:
        print('VIOLATION property=C09 replay=(replayed)')
        return 1
    return 0


def replay(rec: dict) -> int:
    core.setup_repo_path()
    case = rec['case']
    mode = case.get('mode')
    if mode in ('for', 'reuse', 'doc', 'doc-predicate'):
        return replay_history(rec)
    obs = evaluate(case['expr'], case['parser'], case['variables'], fresh=True)
    exp = tuple(tuple(x) if isinstance(x, list) else x for x in rec['expected'])
    print('expr      :', case['expr'], ' parser', case['parser'])
    print('variables :', {k: dec_var(e) for k, e in case['variables'].items()})
    print('expected  :', exp, repr(text(exp[1])) if exp[0] == 'str' else '')
    print('observed  :', obs, repr(text(obs[1])) if obs[0] == 'str' else '')
    out = conforms(exp, obs)
    if out is not None:
        print(f'VIOLATION property=C09 replay=(replayed) outcome={out}')
        return 1
    return 0


def run(chk: core.Check) -> None:
    core.setup_repo_path()
    chk.assumptions += [
        'spec/Strings.tla is the oracle: a string is its code point sequence; code point collation only',
        'libxml2 (lxml) is second oracle for the XPath 1.0 functions; python UTF-8 codec, str.upper/lower and float() cross-check the spec tables',
        'XPath 1.0 string(+-INF) = Infinity (sec. 4.2) differs from F&O INF: modelled by ConcatNum10, replayed on the 1.0 side only',
        'parsers are built with default_collation = Unicode code point collation (the locale-derived default is outside C09)',
        'error codes are not compared (the property names none); codepoints-to-string follows the XML 1.0 Char production (the C0 controls of XML 1.1 are errors)',
        'static context: default collation in {codepoint, html-ascii-case-insensitive} x collation argument {absent, codepoint, html-ascii-case-insensitive} (spec: Effective / UsesCollation); locale and UCA collations are outside C09',
    ]
    seen_actions = set()
    for name, consts in TIERS[chk.tier]:
        wd = os.path.join(chk.scratch, name)
        dot = os.path.join(wd, 'g.dot')
        cfg = tla.cfg_text(consts, invariants=['Laws', 'LawCps', 'LawsUri', 'LawDoc', 'LawColl', 'LawsCase', 'LawEdge'])
        r = tla.require_ok(tla.run_tlc('Strings', cfg, wd, dump_dot=dot), f'Strings/{name}', min_distinct=100)
        chk.model(f'Strings/{name}', r)
        g = tla.load_dot(dot)
        os.remove(dot)
        # TLC writes the edges in thread order: sort them so that the spelling rotation is deterministic
        skey = {sid: repr(sorted(st['cur'].items())) for sid, st in g.states.items()}
        g.edges.sort(key=lambda e: (skey[e[0]], e[2], e[3]))
        msgs = spec_oracles(g)
        if msgs:
            raise tla.MachineryError(f'spec/Strings disagrees with a python oracle: {msgs[:5]}')
        has_out = {e[0] for e in g.edges if not e[2].startswith('Doc')}
        producers: dict[int, list] = {}
        for s, d, a, args in g.edges:
            if d in has_out and s != d and a != 'ConcatNum10' and not a.startswith(('Doc', 'Coll', 'Ctx', 'SubstringE')):
                lst = producers.setdefault(d, [])
                fnm = (a, args[0] if a in ('Fn1', 'Fn2') else None)
                if len(lst) < 3 and all((x[1], x[2][0] if x[1] in ('Fn1', 'Fn2') else None) != fnm for x in lst):
                    lst.append((s, a, args))
        G.update(states=g.states, edges=g.edges, producers=producers, all_versions=(chk.tier == 'thorough'))
        n = len(g.edges)
        nontrivial = set()
        for s, d, a, args in g.edges:
            seen_actions.add(a)
            if not trivial(g.states[s]['cur'], g.states[d]['cur']):
                nontrivial.add((s, a, args))
        chk.add('transitions', n)
        chk.add('traces_validated_against_impl', n)
        chk.add('distinct_nontrivial', len(nontrivial))
        nt_edges = [e for e in g.edges[:: max(1, n // 4000)] if not trivial(g.states[e[0]]['cur'], g.states[e[1]]['cur'])]
        for s, d, a, args in [e for e in nt_edges if not e[2].startswith(('Doc', 'Coll', 'Ctx', 'SubstringE'))][:: max(1, len(nt_edges) // 5)][:5]:
            fn, expr, vs, _ = template(a, args)
            chk.sample(dict(expr=expr, variables={k: dec_var(e) for k, e in dict(vs, s=enc_value(g.states[s]['cur'])).items()},
                            expected=norm_expected(g.states[d]['cur'])))
        step = max(1, (n + 255) // 256)
        results = core.pool_map(worker, [(k, lo, min(n, lo + step)) for k, lo in enumerate(range(0, n, step))])
        oracle_msgs = []
        nested = 0
        for n_eval, n_lx, n_nested, fails, oracle, n_beval, n_batches in results:
            chk.add('evaluations', n_eval + n_beval)
            chk.add('libxml2_evaluations', n_lx)
            chk.add('batch_evaluations', n_beval)
            chk.add('batches_one_call_site_evaluated_repeatedly', n_batches)
            nested += n_nested
            oracle_msgs += oracle
            for feat, case, exp, obs in fails:
                chk.fail(feat, case, exp, obs, what=f"{case['expr']} {json.dumps(case.get('variables', case.get('bindings')))[:160]}")
        chk.add('nested_chain_evaluations', nested)
        # node-set argument family
        doc_sids = sorted((sid for sid, st in g.states.items() if st['cur']['t'] == 'doc'), key=lambda x: g.states[x]['cur']['kids'])
        if doc_sids:
            pos = {sid: j for j, sid in enumerate(doc_sids)}
            doc_exp: dict = {}
            for s, d, a, args in g.edges:
                if a.startswith('Doc'):
                    doc_exp.setdefault((a, args), [None] * len(doc_sids))[pos[s]] = norm_expected(g.states[d]['cur'])
            labels = sorted(doc_exp, key=repr)
            if any(v is None for lab in labels for v in doc_exp[lab]):
                raise tla.MachineryError('doc family: an action is missing on some document')
            G.update(docs=[g.states[sid]['cur']['kids'] for sid in doc_sids], doc_exp=doc_exp)
            for n_eval, n_lx, fails, oracle in core.pool_map(doc_worker, core.chunked(labels, 64)):
                chk.add('evaluations', n_eval)
                chk.add('nodeset_argument_evaluations', n_eval)
                chk.add('libxml2_evaluations', n_lx)
                oracle_msgs += oracle
                for feat, case, exp, obs in fails:
                    chk.fail(feat, case, exp, obs, what=f"{case['expr']} [{case['parser']}, {case['tree']}]")
            chk.sample(dict(document=doc_xml(G['docs'][4:8]), expr=doc_expr(*labels[len(labels) // 2]), parser='1.0',
                            expected_per_context_element=doc_exp[labels[len(labels) // 2]][4:8]))
        if oracle_msgs:
            raise tla.MachineryError(f'spec/Strings disagrees with libxml2 on {len(oracle_msgs)} vectors: {oracle_msgs[:5]}')
        print(f'  {name}: states={r.distinct} edges={n} nested={nested} tlc={r.wall_s:.1f}s', flush=True)
        G.clear()
    missing = EXPECTED_ACTIONS - seen_actions
    if missing:
        raise tla.MachineryError(f'actions never fired in the Strings graph (vacuous): {sorted(missing)}')
    chk.coverage['exhaustive'] = True
    chk.coverage['rule'] = ('every edge of the TLC graph of Strings (string x function x second string / map pair / numeric grid; URI strings; '
                            'context element x node-set argument paths) is one case, '
                            'replayed with the 1.0/2.0/3.1 parsers in plain, collation-argument, exact-numeric and nested-call spellings, in batches '
                            '(one call site evaluated repeatedly with literal/variable argument masks: for-expression and one Selector over several bindings) and through libxml2; '
                            'distinct non-trivial = distinct (source, action, arguments) whose expected value is not the unchanged source, "", false or ()')
