"""C14 -- fn:path and node path strings identify each node uniquely.

Spec: spec/XDMX.tla (extended tree universe on top of spec/XDM.tla) + spec/PathStrings.tla.
TLC enumerates every tree of the bounded universe and walks it: the state graph of a tree is
the tree itself, every state is one node `cur` carrying `txt` = its path in the four schemes
(fn:path, node.path, etree_iter_paths(root), etree_iter_paths(root, '/') in fragment mode) as
sequences of string pieces, every edge is labelled with the ONE path step leading from the
parent to the child.  TLC decides in the model that every scheme evaluates to exactly {cur}
(with the axes / node tests / positional predicates of XDM.tla) and that the texts are
injective, and refutes the same law for the former counting algorithm of get_child_position
(before fix bbeb72e: by node class / by bare name) in the negative configuration `impl`.

Binding (public API only): for every state the real strings
  (a) select(node_tree, 'path(.)', item=node)  with XPath30Parser / XPath31Parser, the 0-ary
      form path(), and one bulk evaluation  (. | .//node() | .//@*)!path(.)  per tree
  (b) node.path of the node tree returned by get_node_tree()
  (c) elementpath.etree.etree_iter_paths(root) and, for fragments, etree_iter_paths(root, '/')
must equal ''.join(pieces), and that text, evaluated by the real 3.0 / 3.1 parsers on the same
root (select() on the raw root with value projection AND token.select(XPathContext(node_tree))
with node identity), must return exactly that node.  Every edge is replayed as a transition:
the step text evaluated with the real parent node as context item must return the child.
History (state kept on a compiled expression): ONE Selector('path()'), ONE parsed token path(.) and ONE
bulk Selector per parser version live as long as the worker process and are evaluated on every node of every
tree the worker replays, in an order that alternates root names / namespaces / root kinds; each result is
compared with the specification's string.  A failure records the first and the previous tree as history and
--replay drives a fresh compiled expression through that history.
Root kinds x routes: every way the API can root a tree -- R1 ElementTree / lxml tree, R2 Element with
fragment=None, R3 Element with fragment=True, R6 Element with fragment=False (promoted to the child of a real
document node; also an ALREADY BUILT element node tree promoted by get_node_tree(tree, fragment=False)), each as
the raw object, as the node tree returned by get_node_tree() passed as root, with a node of that tree passed
as item=, and through ONE XPathContext(root=...) built by the caller and reused for every evaluation on the
tree (its own node tree is identified separately) -- on both tree libraries; R4 lone comment/PI node; R5
EXTENDED document (several element / text / comment / PI children of the document node), bound through the
library's own two builders: get_node_tree(<document>...</document>).get_document_node(replace=True) on xml.etree
and lxml, and fn:parse-xml-fragment(text) (lxml context; nodes paired in document order because the library
parses the text itself).  Zero-length text chunks (elem.text = '' / tail = '', kind "te") are text nodes of the
tree (both libraries keep them, the builders wrap them, sibling counting includes them); they carry no value,
so they are recognised by parent + preceding sibling and come back from select() as ''.
The names "b" and "urn:n" of the specification are abstract tokens: configurations `names*` bind them to a
namespace name starting with a digit / containing an apostrophe and to local names with XML name characters
that are not \\w in Python (1:1 table applied to the pieces before concatenation).
etree_iter_paths(root, '') (relative paths without './') is the fifth scheme `bare` of the specification.
Second oracle for the SPEC: libxml2 evaluates an XPath 1.0 transliteration of the structured
steps on the lxml document (disagreement = MachineryError).

Not decided here (stated once): node.path is a property of the node tree, which is the same
object for R2 (implied document) and R3 (fragment=True); it is document-style
('/Q{}root[1]/...') and TLC shows (FragmentNeedsRootFn) that no document-style path is sound
in fragment mode, so for R3 node.path is compared as a string and evaluated with the
default (implied document) reading of the same root only.  Namespace nodes come back from
select() as URI strings (documented elementpath convention): their identity is checked
through token.select() only.  xml.etree has no document-level comments / PIs and no
namespace declarations: DocLevel trees are lxml-only, and the declared prefixes are passed to
xml.etree evaluations through `namespaces=` (the default namespace as the '' key).
With the declarations "dp" (xmlns="urn:d" xmlns:p="urn:n" on the root) the elements below the
root may be in NO namespace next to like-local-named siblings in urn:d (the in-memory form of
xmlns=""): lxml SubElement(parent, 'a') / xml.etree tag 'a' with namespaces={'': 'urn:d'}.  Both
libraries report the root's declarations as in scope of every element, so every element has the
namespace nodes xml + declared prefixes (tree-building convention, not judged here).
"""
from __future__ import annotations

import os
import re
import time
import xml.etree.ElementTree as ET

import lxml.etree as LX

from .. import core, tla

ALL_KINDS = {"a0", "b0", "an", "ad", "bd", "xa0", "xan", "pp", "pa", "t", "c"}
ALL_DECLS = {"none", "p", "dp"}
# the caller's namespaces= map as a dimension: names the reserved prefix xml itself ("x" "px" "dpx"), binds a second
# prefix q to the namespace name of p ("pq")
MAP_DECLS = {"x", "px", "dpx", "pq"}
NSMAP_KINDS = {"a0", "an", "ad", "xa0", "xan", "t"}

CONFIGS = {
    'quick': [
        ('N1-R4', dict(N=1, Kinds={"c", "pp", "pa"}, RootCfg="R4", Decls={"none"}, DocLevel=False)),
        ('N3-R1', dict(N=3, Kinds=ALL_KINDS, RootCfg="R1", Decls={"none", "dp"}, DocLevel=True)),
        ('N3-R2', dict(N=3, Kinds=ALL_KINDS, RootCfg="R2", Decls={"p", "dp"}, DocLevel=False)),
        ('N3-R3', dict(N=3, Kinds=ALL_KINDS, RootCfg="R3", Decls={"p", "dp"}, DocLevel=False)),
        ('N4-R1-pos', dict(N=4, Kinds={"a0", "b0", "t", "c", "pp", "pa"}, RootCfg="R1", Decls={"none"}, DocLevel=True)),
        ('N4-R2-ns', dict(N=4, Kinds={"ad", "a0", "an", "xa0", "t"}, RootCfg="R2", Decls={"dp"}, DocLevel=False)),
        ('N4-R3-pos', dict(N=4, Kinds={"a0", "an", "c", "pp", "t"}, RootCfg="R3", Decls={"p"}, DocLevel=False)),
        # zero-length text chunks (elem.text = '' / tail = ''), element root
        ('N4-R2-te', dict(N=4, Kinds={"a0", "t", "te", "c"}, RootCfg="R2", Decls={"none"}, DocLevel=False)),
        # extended documents: several element / text / comment / PI children of the document node
        ('N3-R5', dict(N=3, Kinds={"a0", "b0", "xa0", "t", "te", "c", "pp", "pa"}, RootCfg="R5", Decls={"none"},
                       DocLevel=False)),
        # an Element handed over with fragment=False (promoted to a real document), raw and from a built node tree
        ('N3-R6', dict(N=3, Kinds={"a0", "b0", "an", "xa0", "xan", "t", "c", "pp"}, RootCfg="R6", Decls={"p"},
                       DocLevel=False)),
        # other concrete names for the abstract tokens "urn:n" and "b"
        ('N3-R2-names1', dict(N=3, Kinds={"a0", "b0", "an", "xan", "t"}, RootCfg="R2", Decls={"p"}, DocLevel=False),
         {'urn:n': '1x', 'b': '\u2103'}),
        ('N3-R1-names2', dict(N=3, Kinds={"a0", "b0", "an", "xan", "t"}, RootCfg="R1", Decls={"p"}, DocLevel=False),
         {'urn:n': "it's", 'b': '\u0928\u093e\u092e'}),
        # names in the XML namespace: xml:lang attributes and an xml:a element (prefix xml is always in scope)
        ('N3-R1-xml', dict(N=3, Kinds={"a0", "ax", "xax", "xa0", "t"}, RootCfg="R1", Decls={"none"}, DocLevel=False)),
        ('N3-R3-xml', dict(N=3, Kinds={"a0", "ax", "xax", "xa0", "c"}, RootCfg="R3", Decls={"none"}, DocLevel=False)),
        # namespace nodes as path subjects under every shape of the caller's namespaces= map
        ('N3-R2-nsmap', dict(N=3, Kinds=NSMAP_KINDS, RootCfg="R2", Decls=MAP_DECLS, DocLevel=False)),
        ('N3-R3-nsmap', dict(N=3, Kinds=NSMAP_KINDS, RootCfg="R3", Decls=MAP_DECLS, DocLevel=False)),
        ('N2-R1-nsmap', dict(N=2, Kinds=NSMAP_KINDS, RootCfg="R1", Decls=MAP_DECLS, DocLevel=False)),
        # one wide fragment: 12 like-named children of a like-named root (two-digit positions)
        ('N13-R3-wide', dict(N=13, Kinds={"a0"}, RootCfg="R3", Decls={"none"}, DocLevel=False, Flat=True)),
        ('N13-R2-wide', dict(N=13, Kinds={"a0", "t"}, RootCfg="R2", Decls={"none"}, DocLevel=False, Flat=True)),
    ],
    'thorough': [
        ('N4-R2-nsmap', dict(N=4, Kinds=NSMAP_KINDS, RootCfg="R2", Decls=MAP_DECLS, DocLevel=False)),
        ('N3-R3-nsmap', dict(N=3, Kinds=NSMAP_KINDS, RootCfg="R3", Decls=MAP_DECLS, DocLevel=False)),
        ('N3-R1-nsmap', dict(N=3, Kinds=NSMAP_KINDS, RootCfg="R1", Decls=MAP_DECLS, DocLevel=False)),
        ('N3-R6-nsmap', dict(N=3, Kinds=NSMAP_KINDS, RootCfg="R6", Decls=MAP_DECLS, DocLevel=False)),
        ('N3-R1-xml', dict(N=3, Kinds={"a0", "ax", "xax", "xa0", "t"}, RootCfg="R1", Decls={"none"}, DocLevel=False)),
        ('N4-R3-xml', dict(N=4, Kinds={"a0", "ax", "xax", "xa0", "c"}, RootCfg="R3", Decls={"none"}, DocLevel=False)),
        ('N13-R3-wide', dict(N=13, Kinds={"a0"}, RootCfg="R3", Decls={"none"}, DocLevel=False, Flat=True)),
        ('N13-R2-wide', dict(N=13, Kinds={"a0", "t"}, RootCfg="R2", Decls={"none"}, DocLevel=False, Flat=True)),
        ('N1-R4', dict(N=1, Kinds={"c", "pp", "pa"}, RootCfg="R4", Decls={"none"}, DocLevel=False)),
        ('N4-R1', dict(N=4, Kinds=ALL_KINDS, RootCfg="R1", Decls=ALL_DECLS, DocLevel=True)),
        ('N4-R2', dict(N=4, Kinds=ALL_KINDS, RootCfg="R2", Decls=ALL_DECLS, DocLevel=False)),
        ('N4-R3', dict(N=4, Kinds=ALL_KINDS, RootCfg="R3", Decls=ALL_DECLS, DocLevel=False)),
        ('N5-R1-pos', dict(N=5, Kinds={"a0", "b0", "t", "c", "pp", "pa"}, RootCfg="R1", Decls={"none"}, DocLevel=True)),
        ('N5-R2-ns', dict(N=5, Kinds={"ad", "a0", "xa0", "t"}, RootCfg="R2", Decls={"dp"}, DocLevel=False)),
        ('N5-R3-pos', dict(N=5, Kinds={"a0", "an", "c", "pp", "t"}, RootCfg="R3", Decls={"p"}, DocLevel=False)),
        ('N5-R2-te', dict(N=5, Kinds={"a0", "t", "te", "c"}, RootCfg="R2", Decls={"none"}, DocLevel=False)),
        ('N3-R5', dict(N=3, Kinds={"a0", "b0", "xa0", "t", "te", "c", "pp", "pa"}, RootCfg="R5", Decls={"none"},
                       DocLevel=False)),
        ('N4-R5', dict(N=4, Kinds={"a0", "b0", "t", "te", "c", "pp"}, RootCfg="R5", Decls={"none"}, DocLevel=False)),
        ('N4-R6', dict(N=4, Kinds={"a0", "b0", "an", "xa0", "xan", "t", "c", "pp"}, RootCfg="R6", Decls={"p"},
                       DocLevel=False)),
        ('N3-R2-names1', dict(N=3, Kinds={"a0", "b0", "an", "xan", "t"}, RootCfg="R2", Decls={"p"}, DocLevel=False),
         {'urn:n': '1x', 'b': '\u2103'}),
        ('N3-R1-names2', dict(N=3, Kinds={"a0", "b0", "an", "xan", "t"}, RootCfg="R1", Decls={"p"}, DocLevel=False),
         {'urn:n': "it's", 'b': '\u0928\u093e\u092e'}),
    ],
}
# the former counting algorithm (before fix bbeb72e), modelled in the spec (ImplPos), must be REFUTED by TLC
NEGATIVE = ('impl', dict(N=3, Kinds={"a0", "pp", "pa"}, RootCfg="R1", Decls={"none"}, DocLevel=False))
# ... and accepted where its defects cannot show (one PI target, not named like an element)
NEGATIVE_CTRL = ('impl-ctrl', dict(N=3, Kinds={"a0", "b0", "pp", "t", "c"}, RootCfg="R1", Decls={"none"}, DocLevel=False))

INVARIANTS = ['TypeOK', 'Laws']

# ---------------------------------------------------------------------------------------
# binding table: abstract tree of spec/XDMX.tla <-> xml.etree / lxml objects (dumb, 1:1)

TAG = {'a0': 'a', 'b0': 'b', 'an': '{urn:n}a', 'ad': '{urn:d}a', 'bd': '{urn:d}b',
       'ax': '{http://www.w3.org/XML/1998/namespace}a'}
ATTR = {'xa0': 'a', 'xan': '{urn:n}a', 'xax': '{http://www.w3.org/XML/1998/namespace}lang'}
ALPHA: dict = {}      # binding of the abstract name tokens "b" / "urn:n" to concrete names (per configuration)


def set_alphabet(alpha: dict | None) -> None:
    """Bind the abstract tokens of the specification to concrete names: 1:1 table, default identity."""
    global ALPHA
    ALPHA = dict(alpha or {})
    b, un = ALPHA.get('b', 'b'), ALPHA.get('urn:n', 'urn:n')
    TAG.update({'b0': b, 'an': f'{{{un}}}a', 'bd': f'{{urn:d}}{b}'})
    ATTR.update({'xan': f'{{{un}}}a'})
    NSMAP.update({'p': {'p': un}, 'dp': {'': 'urn:d', 'p': un}, 'px': {'xml': XML_NS, 'p': un},
                  'dpx': {'': 'urn:d', 'xml': XML_NS, 'p': un}, 'pq': {'p': un, 'q': un}})


def render(pieces) -> str:
    """Lexical path of the specification -> text: concatenation of the pieces (names through the binding table)."""
    return ''.join(ALPHA.get(pc, pc) for pc in pieces)


def name_classes() -> dict:
    un, b = ALPHA.get('urn:n', 'urn:n'), ALPHA.get('b', 'b')
    return dict(uri_class=('digit-first' if un[:1].isdigit() else 'quote' if "'" in un else 'plain'),
                name_class=('ascii' if b.isascii() else 'non-ascii'))
TARGET = {'pp': 'pi', 'pa': 'a'}
XML_NS = 'http://www.w3.org/XML/1998/namespace'
# the map handed to the API as namespaces= (xml.etree) / declared on the root element (lxml; libxml2 keeps no
# xmlns:xml declaration, the explicit xml entry reaches the API through namespaces= only)
NSMAP = {'none': {}, 'p': {'p': 'urn:n'}, 'dp': {'': 'urn:d', 'p': 'urn:n'},
         'x': {'xml': XML_NS}, 'px': {'xml': XML_NS, 'p': 'urn:n'},
         'dpx': {'': 'urn:d', 'xml': XML_NS, 'p': 'urn:n'}, 'pq': {'p': 'urn:n', 'q': 'urn:n'}}
NS_IDX = {'xml': 1, '': 2, 'p': 3, 'q': 4}
NS_MAP_CLASS = {'x': 'xml-explicit', 'px': 'xml-explicit', 'dpx': 'xml-explicit', 'pq': 'alias'}
KIND_CLASS = {'a0': 'elem', 'b0': 'elem', 'an': 'elem', 'ad': 'elem', 'bd': 'elem', 'ax': 'elem',
              'xa0': 'attr', 'xan': 'attr', 'xax': 'attr',
              'pp': 'pi', 'pa': 'pi', 't': 'text', 'te': 'text', 'c': 'comment'}


class XDoc:
    """One concrete document for an abstract (parent, kind, decl) tree.  With wrapper=True (RootCfg R5) the
    children of the document node are built as the children of a dummy <document> element, which is how the
    library itself builds extended documents (parse-xml-fragment, get_document_node(replace=True))."""

    def __init__(self, parent: tuple, kind: tuple, decl: str, lib: str, wrapper: bool = False):
        self.parent, self.kind, self.decl, self.lib = parent, kind, decl, lib
        mod = ET if lib == 'etree' else LX
        n = len(parent)
        self.objs: dict[int, object] = {}
        self.obj2id: dict[int, int] = {}
        self.empty_text: dict[tuple, int] = {}      # (parent id, previous sibling id or 0) -> id of a '' text node
        last_child: dict[int, object] = {}
        last_child_id: dict[int, int] = {}
        top = [i for i in range(1, n + 1) if parent[i - 1] == 0]
        before = after = []
        self.wrapper = None
        if wrapper:
            self.wrapper = self.objs[0] = mod.Element('document')
            self.root_id = 0
        else:
            self.root_id = next(i for i in top if kind[i - 1] in TAG)
            before = [i for i in top if i < self.root_id]
            after = [i for i in top if i > self.root_id]
            if (before or after) and lib != 'lxml':
                raise ValueError('document-level siblings need lxml')

        def leaf(i):
            k = kind[i - 1]
            if k == 'c':
                return mod.Comment(f'c{i}')
            return mod.ProcessingInstruction(TARGET[k], f'p{i}')

        for i in range(1, n + 1):
            k, p = kind[i - 1], parent[i - 1]
            if p == 0 and not wrapper:
                if i == self.root_id:
                    if lib == 'lxml':
                        nsmap = {(pf or None): uri for pf, uri in NSMAP[decl].items()}
                        el = mod.Element(TAG[k], nsmap=nsmap or None)
                    else:
                        el = mod.Element(TAG[k])
                    self.objs[i] = el
                continue
            if k in TAG:
                el = mod.SubElement(self.objs[p], TAG[k])
                last_child[p] = el
                last_child_id[p] = i
                self.objs[i] = el
            elif k in ATTR:
                self.objs[p].set(ATTR[k], f'v{i}')
            elif k in ('t', 'te'):
                value = f't{i}' if k == 't' else ''         # '' is a zero-length chunk, distinct from None
                prev = last_child.get(p)
                if prev is None:
                    self.objs[p].text = value
                else:
                    prev.tail = value
                if k == 'te':
                    self.empty_text[(p, last_child_id.get(p, 0))] = i
            else:
                el = leaf(i)
                self.objs[p].append(el)
                last_child[p] = el
                last_child_id[p] = i
                self.objs[i] = el
        self.root = self.objs[self.root_id]
        for i in before:
            self.objs[i] = leaf(i)
            self.root.addprevious(self.objs[i])
        for i in reversed(after):
            self.objs[i] = leaf(i)
            self.root.addnext(self.objs[i])
        self.tree = ET.ElementTree(self.root) if lib == 'etree' else self.root.getroottree()
        for i, o in self.objs.items():
            if i:
                self.obj2id[id(o)] = i
        self.namespaces = dict(NSMAP[decl]) or None

    def fragment_text(self) -> str:
        """The children of the document as XML text (argument of fn:parse-xml-fragment); dumb rendering."""
        n = len(self.parent)

        def render(i):
            k = self.kind[i - 1]
            if k == 't':
                return f't{i}'
            if k == 'c':
                return f'<!--c{i}-->'
            if k in TARGET:
                return f'<?{TARGET[k]} p{i}?>'
            if k not in ('a0', 'b0'):
                raise ValueError(k)
            atts = ''.join(f" {ATTR[self.kind[j - 1]]}='v{j}'" for j in range(1, n + 1)
                           if self.parent[j - 1] == i and self.kind[j - 1] in ATTR)
            inner = ''.join(render(j) for j in range(1, n + 1)
                            if self.parent[j - 1] == i and self.kind[j - 1] not in ATTR)
            return f'<{TAG[k]}{atts}>{inner}</{TAG[k]}>' if inner else f'<{TAG[k]}{atts}/>'
        return ''.join(render(i) for i in range(1, n + 1) if self.parent[i - 1] == 0)

    def xml(self) -> str:
        if self.lib == 'etree' or self.wrapper is not None:
            return (ET if self.lib == 'etree' else LX).tostring(self.root, encoding='unicode')
        return LX.tostring(self.tree, encoding='unicode')

    def ns_uri(self, nid: int) -> str:
        j = nid % 100
        return XML_NS if j == 1 else 'urn:d' if j == 2 else ALPHA.get('urn:n', 'urn:n')     # p and q: one name

    def project(self, items) -> list:
        """Result list of select() -> abstract ids; namespace nodes are URI strings -> ('nsuri', uri)."""
        from elementpath import XPathNode
        out = []
        for it in items:
            if isinstance(it, str):
                if it[:1] in 'tv' and it[1:].isdigit():
                    out.append(int(it[1:]))
                elif it == '':
                    out.append(('emptytext',))
                elif it in (XML_NS, 'urn:d', ALPHA.get('urn:n', 'urn:n')):
                    out.append(('nsuri', it))
                else:
                    out.append(('?', it))
            elif isinstance(it, XPathNode):
                out.append(0 if type(it).__name__.endswith('DocumentNode') else ('?', repr(it)))
            else:
                i = self.obj2id.get(id(it))
                if i is None:
                    i = 0 if hasattr(it, 'getroot') else ('?', repr(it))
                out.append(i)
        return out


def node_ids(doc: XDoc, nt) -> dict:
    """real XPathNode -> abstract id, by kind + unique value; a zero-length text node has no value to carry an id
    and is recognised by its parent and its preceding sibling."""
    from elementpath import (AttributeNode, CommentNode, DocumentNode, ElementNode, NamespaceNode,
                             ProcessingInstructionNode, TextNode)

    def oid(nd):
        if isinstance(nd, DocumentNode):
            return 0
        return doc.obj2id.get(id(nd.value))

    m = {}
    for nd in nt.iter():
        if isinstance(nd, DocumentNode):
            i = 0
        elif isinstance(nd, (ElementNode, CommentNode, ProcessingInstructionNode)):
            i = doc.obj2id.get(id(nd.value), ('?', repr(nd)))
        elif isinstance(nd, TextNode) and nd.value == '' and nd.parent is not None:
            sibs = nd.parent.children
            k = next(j for j, c in enumerate(sibs) if c is nd)
            i = doc.empty_text.get((oid(nd.parent), oid(sibs[k - 1]) if k else 0), ('?', repr(nd)))
        elif isinstance(nd, (TextNode, AttributeNode)):
            v = nd.value
            i = int(v[1:]) if isinstance(v, str) and v[:1] in 'tv' and v[1:].isdigit() else ('?', repr(nd))
        elif isinstance(nd, NamespaceNode):
            pe = doc.obj2id.get(id(nd.parent.value)) if nd.parent is not None else None
            i = 100 * pe + NS_IDX[nd.name or ''] if pe is not None and (nd.name or '') in NS_IDX else ('?', repr(nd))
        else:
            i = ('?', repr(nd))
        m[id(nd)] = (i, nd)
    return m


def pair_in_document_order(doc: XDoc, nt, abstract_ids: list) -> dict:
    """For a tree that the LIBRARY parsed from text (fn:parse-xml-fragment) there is no object shared with the
    binder: the nodes are paired with the abstract nodes in document order (kinds must agree), and the parsed
    etree objects are entered in doc.obj2id so that select() results can be projected."""
    from elementpath import (AttributeNode, CommentNode, DocumentNode, ElementNode, NamespaceNode,
                             ProcessingInstructionNode, TextNode)
    cls = {'doc': DocumentNode, 'elem': ElementNode, 'attr': AttributeNode, 'text': TextNode, 'comment': CommentNode,
           'pi': ProcessingInstructionNode, 'ns': NamespaceNode}
    real = list(nt.iter())
    order = []
    for i in abstract_ids:
        if i < 100:
            order.append(i)
            order += [j for j in abstract_ids if j >= 100 and j // 100 == i and i]
    if len(real) != len(order):
        raise tla.MachineryError(f'parse-xml-fragment({doc.fragment_text()!r}) built {len(real)} nodes, the specification '
                                 f'has {len(order)}: {[repr(x) for x in real]}')
    m = {}
    for nd, i in zip(real, order):
        if not isinstance(nd, cls[kind_of(doc.kind, i)]):
            raise tla.MachineryError(f'parse-xml-fragment({doc.fragment_text()!r}): node {nd!r} paired with {i}')
        m[id(nd)] = (i, nd)
        if isinstance(nd, (ElementNode, CommentNode, ProcessingInstructionNode)):
            doc.obj2id[id(nd.value)] = i
    return m


_parsers = None


def parsers():
    global _parsers
    if _parsers is None:
        from elementpath.xpath30 import XPath30Parser
        from elementpath.xpath31 import XPath31Parser
        _parsers = {'3.0': XPath30Parser, '3.1': XPath31Parser}
    return _parsers


def outcome_of(exc: Exception):
    from elementpath import ElementPathError
    if isinstance(exc, ElementPathError):
        code = getattr(exc, 'code', None) or type(exc).__name__
        return ('err', code.split(':')[-1])
    return ('escaped', type(exc).__name__)


_pos_re = re.compile(r'\[\d+\]')


def string_outcome(obs, exp: str) -> str:
    if not isinstance(obs, str):
        if isinstance(obs, tuple):
            return f'{obs[0]}:{obs[1]}'
        return 'empty' if obs in ([], None) else 'nonstring'
    if _pos_re.sub('[]', obs) == _pos_re.sub('[]', exp):
        return 'position'
    return 'format'


def select_outcome(obs, exp: list) -> str:
    if isinstance(obs, tuple):
        return f'{obs[0]}:{obs[1]}'
    if not obs:
        return 'empty'
    if len(obs) > 1:
        return 'multi'
    return 'other'


def kind_of(doc_kind: tuple, n: int) -> str:
    if n == 0:
        return 'doc'
    if n >= 100:
        return 'ns'
    return KIND_CLASS[doc_kind[n - 1]]


def chain_flags(parent: tuple, kind: tuple, n: int) -> dict:
    """Abstract features of the ancestor-or-self chain that the path string is built from."""
    pi_mixed = False      # a PI on the chain has a preceding PI sibling with another target
    elem_pi_clash = False  # an element on the chain has a preceding PI sibling whose target is the element's name
    has_pi_target_pi = False
    m = n // 100 if n >= 100 else n
    while m:
        k = kind[m - 1]
        sib = [j for j in range(1, m) if parent[j - 1] == parent[m - 1]]
        if k in TARGET:
            has_pi_target_pi |= TARGET[k] == 'pi'
            pi_mixed |= any(kind[j - 1] in TARGET and kind[j - 1] != k for j in sib)
        elif k in TAG:
            elem_pi_clash |= any(kind[j - 1] in TARGET and TARGET[kind[j - 1]] == TAG[k] for j in sib)
        m = parent[m - 1]
    uses_uri_n = uses_name_b = False
    m = n // 100 if n >= 100 else n
    while m:
        uses_uri_n |= kind[m - 1] in ('an', 'xan')
        uses_name_b |= kind[m - 1] in ('b0', 'bd')
        m = parent[m - 1]
    return dict(pi_mixed=pi_mixed, elem_pi_clash=elem_pi_clash, pi_target_pi=has_pi_target_pi,
                path_has_uri_n=uses_uri_n, path_has_name_b=uses_name_b)


def xp1_step(st) -> str:
    """XPath 1.0 transliteration of one structured step (second oracle only)."""
    k = st['k']
    pos = f'[{st["pos"]}]' if st['pos'] else ''

    def lit(x):
        x = ALPHA.get(x, x)
        return f'"{x}"' if "'" in x else f"'{x}'"
    if k == 'elem':
        return f"*[local-name()={lit(st['nm'])} and namespace-uri()={lit(st['ns'])}]{pos}"
    if k == 'attr':
        return f"@*[local-name()={lit(st['nm'])} and namespace-uri()={lit(st['ns'])}]"
    if k == 'text':
        return 'text()' + pos
    if k == 'comment':
        return 'comment()' + pos
    if k == 'pi':
        return f"processing-instruction('{st['nm']}'){pos}"
    return f"namespace::*[name()='{st['nm']}']"


class Recorder:
    def __init__(self):
        self.failures: dict = {}
        self.stats = dict(states=0, transitions=0, evaluations=0, nontrivial=0, lx_evals=0, string_checks=0,
                          select_checks=0, history_checks=0, context_item_checks=0)
        self.oracle: list = []
        self.samples: list = []

    def fail(self, feat: dict, case: dict, expected, observed):
        key = tuple(sorted((k, str(v)) for k, v in feat.items()))
        ent = self.failures.get(key)
        if ent is None:
            self.failures[key] = [feat, 1, case, expected, observed]
        else:
            ent[1] += 1


def run_case(case: dict):
    """Re-run exactly one recorded observation; returns the observed value (string, id list or outcome tuple)."""
    parent, kind, decl = tuple(case['parent']), tuple(case['kind']), case['decl']
    root_cfg, lib = case['root'], case['lib']
    set_alphabet(case.get('alphabet'))
    if root_cfg == 'R4':
        return r4_path(kind[0])
    env = Env(parent, kind, decl, lib, root_cfg)
    what = case['what']
    if what in ('shared', 'shared-bulk'):
        sh = Shared()          # a fresh compiled expression driven through the recorded history
        for h in case['history']:
            if h is not None:
                sh.warm(Env(tuple(h['parent']), tuple(h['kind']), h['decl'], h['lib'], h['root']))
        if what == 'shared-bulk':
            return sh.bulk_of(env, case['parser'])
        return sh.path_of(env, case['node'], case['route'], case['parser'])
    if what == 'count':
        return sum(1 for (i, _nd) in env.n2i.values() if i == case['node'])
    if what == 'string':
        return env.real_string(case['api'], case['node'], case.get('parser'))
    if what == 'bulk':
        return env.bulk(case['parser'])
    return env.evaluate(case['text'], case['parser'], case['mode'], case.get('item'), case.get('scheme'))


def r4_path(k: str):
    from elementpath import CommentNode, ProcessingInstructionNode
    try:
        nd = CommentNode('c1') if k == 'c' else ProcessingInstructionNode(TARGET[k], 'p1')
        return nd.path
    except Exception as e:
        return outcome_of(e)


class Env:
    """One tree bound to the real library in one root configuration."""

    def __init__(self, parent, kind, decl, lib, root_cfg):
        import elementpath
        self.ep = elementpath
        self.lib = lib
        self.root_cfg = root_cfg
        self.kw = {'fragment': True} if root_cfg == 'R3' else {'fragment': False} if root_cfg == 'R6' else {}
        if root_cfg == 'R6' and lib.endswith('-promoted'):
            # an ALREADY BUILT element-rooted node tree, promoted to a document by get_node_tree(.., fragment=False)
            self.doc = XDoc(parent, kind, decl, lib.split('-')[0])
            self.ns = self.doc.namespaces
            built = elementpath.get_node_tree(self.doc.root, namespaces=self.ns)
            self.nt = elementpath.get_node_tree(built, namespaces=self.ns, fragment=False)
            self.n2i = node_ids(self.doc, self.nt)
            self.root = self.nt
        elif root_cfg == 'R5':
            # extended document node (several element / text children), built by the library's own two routes
            self.doc = XDoc(parent, kind, decl, 'lxml' if lib == 'lxml-parse' else lib, wrapper=True)
            self.ns = None
            if lib == 'lxml-parse':
                ctx = elementpath.XPathContext(LX.XML('<dummy/>'), variables={'s': self.doc.fragment_text()})
                self.nt = parsers()['3.1']().parse('parse-xml-fragment($s)').evaluate(ctx)
                if not isinstance(self.nt, elementpath.DocumentNode):
                    raise tla.MachineryError(f'parse-xml-fragment({self.doc.fragment_text()!r}) returned {self.nt!r}')
                self.n2i = pair_in_document_order(self.doc, self.nt, abstract_ids(parent, kind, decl, root_cfg))
            else:
                self.nt = elementpath.get_node_tree(self.doc.wrapper).get_document_node(replace=True)
                self.n2i = node_ids(self.doc, self.nt)
            self.root = self.nt
        else:
            self.doc = XDoc(parent, kind, decl, lib)
            self.root = self.doc.tree if root_cfg == 'R1' else self.doc.root
            self.ns = self.doc.namespaces
            self.nt = elementpath.get_node_tree(self.root, namespaces=self.ns, **self.kw)
            self.n2i = node_ids(self.doc, self.nt)
        self.by_id = {i: nd for (i, nd) in self.n2i.values() if not isinstance(i, tuple)}
        self._iter = {}
        self._ctx = None

    def reused_context(self):
        """ONE XPathContext built by the caller from the root as it was handed over, reused for every evaluation
        on this tree (its own node tree: identified separately)."""
        if self._ctx is None:
            ctx = self.ep.XPathContext(self.root, namespaces=self.ns, **self.kw)
            ids = self.n2i if ctx.root is self.nt else (
                pair_in_document_order(self.doc, ctx.root, sorted(self.by_id)) if self.lib == 'lxml-parse'
                else node_ids(self.doc, ctx.root))
            self._ctx = (ctx, ctx.item, ids, {i: nd for (i, nd) in ids.values() if not isinstance(i, tuple)})
        return self._ctx

    # -- the strings produced by the code ------------------------------------------------
    def real_string(self, api: str, n: int, parser: str | None = None):
        try:
            if api == 'node.path':
                return self.by_id[n].path
            if api in ('fn:path', 'fn:path()'):
                expr = 'path(.)' if api == 'fn:path' else 'path()'
                r = self.ep.select(self.nt, expr, namespaces=self.ns, parser=parsers()[parser],
                                   item=self.by_id[n], **self.kw)
                return r
            if api == 'fn:path(reused context)':
                ctx, item0, _ids, by_id = self.reused_context()
                try:
                    ctx.item = by_id[n]
                    return parsers()[parser]().parse('path(.)').evaluate(ctx)
                finally:
                    ctx.item = item0
            if api == 'fn:path(raw item)':
                item = self.doc.tree if n == 0 else self.doc.objs[n]
                return self.ep.select(self.root, 'path(.)', namespaces=self.ns, parser=parsers()[parser],
                                      item=item, **self.kw)
            if api in ('etree_iter_paths', 'etree_iter_paths(/)', "etree_iter_paths('')"):
                d = self._iter.get(api)
                if d is None:
                    from elementpath.etree import etree_iter_paths
                    it = etree_iter_paths(self.doc.root) if api == 'etree_iter_paths' else \
                        etree_iter_paths(self.doc.root, '/' if api == 'etree_iter_paths(/)' else '')
                    d = self._iter[api] = {self.doc.obj2id.get(id(e)): p for e, p in it}
                return d.get(n, ('missing', 'not yielded'))
        except Exception as e:
            return outcome_of(e)
        raise ValueError(api)

    def bulk(self, parser: str):
        try:
            return self.ep.select(self.root, '(. | .//node() | .//@*)!path(.)', namespaces=self.ns,
                                  parser=parsers()[parser], **self.kw)
        except Exception as e:
            return outcome_of(e)

    # -- evaluating a path text with the real parsers ------------------------------------
    def evaluate(self, text: str, parser: str, mode: str, item_id=None, scheme=None):
        """mode 'select': elementpath.select on the raw root (value projection);
        mode 'nodes': parse + token.select(XPathContext(node tree)) (node identity)."""
        P = parsers()[parser]
        kw = dict(self.kw)
        if scheme == 'doc' and self.root_cfg == 'R3':
            kw = {}       # node.path of a fragment tree: implied-document reading of the same root (module docstring)
        try:
            if mode == 'select':
                if item_id is None:
                    res = self.ep.select(self.root, text, namespaces=self.ns, parser=P, **kw)
                else:
                    item = self.by_id[item_id]
                    res = self.ep.select(self.nt, text, namespaces=self.ns, parser=P, item=item, **kw)
                if not isinstance(res, list):
                    res = [res]
                return self.doc.project(res)
            tok = P(namespaces=self.ns).parse(text)
            if mode == 'ctx':
                ctx, item0, ids, by_id = self.reused_context()
                try:
                    ctx.item = by_id[item_id] if item_id is not None else item0
                    res = list(tok.select(ctx))
                finally:
                    ctx.item = item0
                return [ids[id(nd)][0] if id(nd) in ids else ('?', repr(nd)) for nd in res]
            ckw = dict(kw)
            if item_id is not None:
                ckw['item'] = self.by_id[item_id]
            ctx = self.ep.XPathContext(self.nt, namespaces=self.ns, **ckw)
            out = []
            for nd in tok.select(ctx):
                ent = self.n2i.get(id(nd))
                out.append(ent[0] if ent is not None else ('?', repr(nd)))
            return out
        except Exception as e:
            return outcome_of(e)


def expected_projection(doc: XDoc, n: int, mode: str) -> list:
    if mode == 'select' and n >= 100:
        return [('nsuri', doc.ns_uri(n))]
    if mode == 'select' and 0 < n < 100 and doc.kind[n - 1] == 'te':
        return [('emptytext',)]
    return [n]


NS_OF_DECL = {'none': (1,), 'p': (1, 3), 'dp': (1, 2, 3), 'x': (1,), 'px': (1, 3), 'dpx': (1, 2, 3), 'pq': (1, 3, 4)}


def abstract_ids(parent, kind, decl, root_cfg) -> list:
    """The node ids of a tree as the specification numbers them (checked against the TLC states of the tree)."""
    ids = [0] if root_cfg in ('R1', 'R5', 'R6') else []
    for i in range(1, len(parent) + 1):
        ids.append(i)
        if kind[i - 1] in TAG:
            ids += [100 * i + j for j in NS_OF_DECL[decl]]
    return sorted(ids)


# ---------------------------------------------------------------------------------------
# history: ONE parsed token / Selector per worker process, evaluated over the whole sequence of trees

class Shared:
    """`path()` and the bulk expression parsed ONCE (Selector and bare token, 3.0 and 3.1) and then evaluated on
    every node of every tree that the worker process replays -- element roots with different names and
    namespaces, documents, fragments, extended documents -- as a long-lived compiled expression is used."""
    BULK = '(. | .//node() | .//@*)!path(.)'

    def __init__(self):
        from elementpath import Selector
        self.sel = {pv: Selector('path()', parser=P) for pv, P in parsers().items()}
        self.tok = {pv: P().parse('path(.)') for pv, P in parsers().items()}
        self.bulk = {pv: Selector(self.BULK, parser=P) for pv, P in parsers().items()}
        self.first = None       # the first and the latest tree seen: what --replay re-creates as history
        self.prev = None

    def path_of(self, env: 'Env', n: int, route: str, pv: str):
        try:
            if route == 'selector':
                return self.sel[pv].select(env.nt, item=env.by_id[n], namespaces=env.ns, **env.kw)
            ctx = env.ep.XPathContext(env.nt, item=env.by_id[n], namespaces=env.ns, **env.kw)
            return self.tok[pv].evaluate(ctx)
        except Exception as e:
            return outcome_of(e)

    def bulk_of(self, env: 'Env', pv: str):
        try:
            return self.bulk[pv].select(env.root, namespaces=env.ns, **env.kw)
        except Exception as e:
            return outcome_of(e)

    def warm(self, env: 'Env'):
        for n in sorted(env.by_id):
            for pv in self.sel:
                self.path_of(env, n, 'selector', pv)
                self.path_of(env, n, 'token', pv)
        for pv in self.bulk:
            self.bulk_of(env, pv)


_shared = None


def shared() -> Shared:
    global _shared
    if _shared is None:
        _shared = Shared()
    return _shared


def tree_worker(job):
    """Replay every state (node) and every transition (step) of one tree on both libraries."""
    (parent, kind, decl, root_cfg, states, edges, libs, alpha) = job
    set_alphabet(alpha)
    rec = Recorder()
    st = rec.stats
    txt = {cur: {k: render(v) for k, v in t.items()} for cur, t in states.items()}
    par_of = {dst: (src, step) for (src, dst, step) in edges}

    top_elem = next(i for i in range(1, len(parent) + 1) if parent[i - 1] == 0 and kind[i - 1] in TAG) \
        if root_cfg not in ('R4', 'R5') else 0

    def feat(n, **kw):
        f = dict(kind=kind_of(kind, n), root=root_cfg)
        f.update(chain_flags(parent, kind, n))
        f.update(name_classes())
        f['ns_map'] = NS_MAP_CLASS.get(decl, 'plain')
        if n and n < 100 and kind[n - 1] in TARGET:
            f['pi_target'] = TARGET[kind[n - 1]]
        f['parent_is_root'] = bool(0 < n < 100 and top_elem and parent[n - 1] == top_elem)
        f.update(kw)
        return f

    def case(lib, **kw):
        c = dict(parent=list(parent), kind=list(kind), decl=decl, root=root_cfg, lib=lib, alphabet=alpha)
        c.update(kw)
        return c

    if root_cfg == 'R4':
        st['states'] += 1
        exp = txt[1]['doc']
        obs = r4_path(kind[0])
        st['evaluations'] += 1
        st['string_checks'] += 1
        if obs != exp:
            rec.fail(feat(1, api='node.path', check='string', lib='none', outcome=string_outcome(obs, exp)),
                     case('none', what='string', api='node.path', node=1), exp, obs)
        return rec

    all_nodes = sorted(states)
    if all_nodes != abstract_ids(parent, kind, decl, root_cfg):
        raise tla.MachineryError(f'node numbering of the binder differs from the TLC states: {all_nodes}')
    sh = shared()
    for lib in libs:
        env = Env(parent, kind, decl, lib, root_cfg)
        doc = env.doc
        real_ids = {i for (i, _nd) in env.n2i.values()}
        # every node of the specification's tree is ONE state: the real node tree has exactly one node for it
        # (two real nodes for one abstract node = two distinct nodes with the same path)
        mult: dict = {}
        for (i, _nd) in env.n2i.values():
            mult[i] = mult.get(i, 0) + 1
        for i in sorted(i for i, c in mult.items() if c != 1 and not isinstance(i, tuple)):
            st['evaluations'] += 1
            rec.fail(feat(i, api='node tree', check='injective', lib=lib, outcome='duplicate-node'),
                     case(lib, what='count', node=i, xml=doc.xml(), namespaces=env.ns), 1, mult[i])
        if real_ids != set(all_nodes):
            raise tla.MachineryError(f'binder: nodes of the real tree {sorted(map(str, real_ids))} != nodes of the '
                                     f'specification {all_nodes} for {parent} {kind} {decl} {root_cfg} {lib}')
        # second oracle for the specification: libxml2 on an XPath 1.0 transliteration of the structured steps
        if lib == 'lxml' and root_cfg in ('R1', 'R5'):
            for n in all_nodes:
                if n == 0:
                    continue
                steps, m = [], n
                while m:
                    m, s = par_of[m]
                    steps.append(xp1_step(s))
                p1 = ('/document/' if root_cfg == 'R5' else '/') + '/'.join(reversed(steps))
                try:
                    res = doc.tree.xpath(p1)
                except Exception as e:
                    res = [('err', repr(e))]
                if n >= 100:
                    got = [(r[0] or '', r[1]) if isinstance(r, tuple) else r for r in res]
                    ok = got == [({1: 'xml', 2: '', 3: 'p', 4: 'q'}[n % 100], doc.ns_uri(n))]
                else:
                    ok = doc.project(res) == expected_projection(doc, n, 'select')
                st['lx_evals'] += 1
                if not ok:
                    rec.oracle.append(dict(tree=[parent, kind, decl], path=p1, node=n, libxml2=repr(res)[:200]))

        for n in all_nodes:
            st['states'] += 1
            t = txt[n]
            kcls = kind_of(kind, n)
            if 0 < n < 100 and any(j != n and parent[j - 1] == parent[n - 1] and KIND_CLASS[kind[j - 1]] == kcls
                                   for j in range(1, len(parent) + 1)):
                st['nontrivial'] += 1
            # ---- strings produced by the code
            checks = [('node.path', None, t['doc'])]
            for pv in ('3.0', '3.1'):
                checks.append(('fn:path', pv, t['fn']))
            checks.append(('fn:path()', '3.1', t['fn']))
            checks.append(('fn:path(reused context)', '3.0', t['fn']))
            if kcls in ('doc', 'elem', 'comment', 'pi') and root_cfg != 'R5' and not lib.endswith('-promoted') \
                    and not (root_cfg == 'R6' and n == 0):     # the promoted document has no object of the caller
                checks.append(('fn:path(raw item)', '3.0', t['fn']))
            if kcls in ('elem', 'comment', 'pi') and t['rel']:
                checks.append(('etree_iter_paths', None, t['rel']))
                if t['frag']:
                    checks.append(('etree_iter_paths(/)', None, t['frag']))
                if t['bare']:
                    checks.append(("etree_iter_paths('')", None, t['bare']))
            for api, pv, exp in checks:
                obs = env.real_string(api, n, pv)
                st['evaluations'] += 1
                st['string_checks'] += 1
                if obs != exp:
                    extra = None
                    if isinstance(obs, str):   # what does the wrong string select?
                        extra = env.evaluate(obs, '3.1', 'nodes', None, 'doc' if api == 'node.path' else None)
                    rec.fail(feat(n, api=api, check='string', lib=lib, parser=pv, outcome=string_outcome(obs, exp)),
                             case(lib, what='string', api=api, node=n, parser=pv, xml=doc.xml()),
                             exp, dict(string=obs, selects=extra))
            # ---- the specification's text, evaluated by the real parsers, must select exactly this node
            evals = [('fn', t['fn'], None)]
            if t['doc'] != t['fn']:      # with a document root the two schemes are the same text
                evals.append(('doc', t['doc'], None))
            if t['rel']:
                evals.append(('rel', t['rel'], doc.root_id))
            if t['frag']:
                evals.append(('frag', t['frag'], None))
            if t['bare'] and kcls in ('elem', 'comment', 'pi'):
                evals.append(('bare', t['bare'], doc.root_id))
            if t['step'] and n in par_of and (par_of[n][0] != 0 or root_cfg in ('R1', 'R5')):
                evals.append(('step', t['step'], par_of[n][0]))
            for scheme, text, item_id in evals:
                if scheme == 'step':
                    st['transitions'] += 1
                # fn:path / node.path texts: both parsers x both result routes; the other schemes: one route per parser
                combos = [(pv, mode) for pv in ('3.0', '3.1') for mode in ('select', 'nodes')] \
                    if scheme in ('fn', 'doc') else [('3.0', 'select'), ('3.1', 'nodes')]
                if scheme == 'fn':
                    combos.append(('3.1', 'ctx'))      # the caller's own XPathContext, reused
                for pv, mode in combos:
                    exp = expected_projection(doc, n, mode)
                    obs = env.evaluate(text, pv, mode, item_id, scheme)
                    st['evaluations'] += 1
                    st['select_checks'] += 1
                    if obs != exp:
                        rec.fail(feat(n, api='eval', check='select', scheme=scheme, lib=lib, parser=pv, mode=mode,
                                      outcome=select_outcome(obs, exp)),
                                 case(lib, what='eval', text=text, parser=pv, mode=mode, item=item_id,
                                      scheme=scheme, node=n, xml=doc.xml()),
                                 exp, obs)
        # ---- the fn:path text must select the node from EVERY context item of the tree ('/' and fn:root() do not
        # depend on it): an attribute, a namespace node, the node itself; for the last node also a text and the last element
        items = {}
        for m in all_nodes:
            km = kind_of(kind, m)
            if km in ('attr', 'ns', 'text'):
                items.setdefault(km, m)
            elif km == 'elem':
                items['elem'] = m
        for n in all_nodes:
            ctx_items = [('self', n)] + [(k, items[k]) for k in ('attr', 'ns') if k in items]
            if n == all_nodes[-1]:
                ctx_items += [(k, items[k]) for k in ('text', 'elem') if k in items]
            for ck, x in ctx_items:
                obs = env.evaluate(txt[n]['fn'], '3.1', 'nodes', x, 'fn')
                st['evaluations'] += 1
                st['select_checks'] += 1
                st['context_item_checks'] = st.get('context_item_checks', 0) + 1
                if obs != [n]:
                    rec.fail(feat(n, api='eval', check='select', scheme='fn', lib=lib, parser='3.1', mode='nodes',
                                  context_item=ck, outcome=select_outcome(obs, [n])),
                             case(lib, what='eval', text=txt[n]['fn'], parser='3.1', mode='nodes', item=x, scheme='fn',
                                  node=n, xml=doc.xml()), [n], obs)
        # ---- one bulk evaluation: fn:path of every non-namespace node, in document order
        for pv in ('3.0', '3.1'):
            exp = [txt[n]['fn'] for n in all_nodes if n < 100]
            obs = env.bulk(pv)
            st['evaluations'] += 1
            if obs != exp:
                bad = [n for n, e, o in zip([n for n in all_nodes if n < 100], exp, obs if isinstance(obs, list) else [])
                       if e != o]
                n0 = bad[0] if bad else 0
                o0 = obs[[n for n in all_nodes if n < 100].index(n0)] if bad else obs
                rec.fail(feat(n0, api='fn:path(bulk)', check='string', lib=lib, parser=pv,
                              outcome=string_outcome(o0, txt[n0]['fn']) if bad else 'length'),
                         case(lib, what='bulk', parser=pv, xml=doc.xml()), exp, obs)
        # ---- history: the worker's ONE parsed path() Selector / token / bulk Selector, on this tree as well
        here = dict(parent=list(parent), kind=list(kind), decl=decl, lib=lib, root=root_cfg)   # same alphabet
        hist = [sh.first, sh.prev]
        reuse = 'first-tree' if sh.first is None else 'later-tree'
        for n in all_nodes:
            for route, pvs in (('selector', ('3.0',)), ('token', ('3.1',))):
                for pv in pvs:
                    exp = txt[n]['fn']
                    obs = sh.path_of(env, n, route, pv)
                    st['evaluations'] += 1
                    st['string_checks'] += 1
                    st['history_checks'] = st.get('history_checks', 0) + 1
                    if obs != exp:
                        rec.fail(feat(n, api=f'fn:path(shared {route})', check='string', lib=lib, parser=pv, reuse=reuse,
                                      outcome=string_outcome(obs, exp)),
                                 case(lib, what='shared', node=n, route=route, parser=pv, history=hist, xml=doc.xml()),
                                 exp, obs)
        for pv in ('3.0', '3.1'):
            exp = [txt[n]['fn'] for n in all_nodes if n < 100]
            obs = sh.bulk_of(env, pv)
            st['evaluations'] += 1
            st['history_checks'] = st.get('history_checks', 0) + 1
            if obs != exp:
                rec.fail(feat(0, api='fn:path(shared bulk)', check='string', lib=lib, parser=pv, reuse=reuse,
                              outcome='differs'),
                         case(lib, what='shared-bulk', parser=pv, history=hist, xml=doc.xml()), exp, obs)
        if sh.first is None:
            sh.first = here
        sh.prev = here
        if len(rec.samples) < 1 and len(all_nodes) > 4:
            n = all_nodes[-1]
            rec.samples.append(dict(xml=doc.xml(), root=root_cfg, lib=lib, node=n, fn_path=txt[n]['fn'],
                                    node_path=txt[n]['doc'], iter_path=txt[n]['rel']))
    return rec


def chunk_worker(jobs):
    out = Recorder()
    for job in jobs:
        r = tree_worker(job)
        for k, v in r.stats.items():
            out.stats[k] += v
        for key, ent in r.failures.items():
            if key in out.failures:
                out.failures[key][1] += ent[1]
            else:
                out.failures[key] = ent
        out.oracle += r.oracle[:3]
        if len(out.samples) < 2:
            out.samples += r.samples
    return out.stats, list(out.failures.values()), out.oracle[:5], len(out.oracle), out.samples[:2]


# ---------------------------------------------------------------------------------------

def replay(rec: dict) -> int:
    core.setup_repo_path()
    obs = run_case(rec['case'])
    exp = rec['expected']
    obs_cmp = core.jsonable(obs)     # the recorded 'observed' of string cases also carries what the wrong string selects
    print('case     :', {k: v for k, v in rec['case'].items() if k not in ('parent', 'kind')})
    print('expected :', exp)
    print('observed :', obs_cmp)
    if obs_cmp != exp:
        print('VIOLATION property=C14 replay=(replayed)')
        return 1
    return 0


def negative_model(chk: core.Check) -> None:
    """TLC must refute the soundness of the counting algorithm of the pinned tree (design-level
    counterexample of the known defects) and accept it in the control universe."""
    name, consts = NEGATIVE
    wd = os.path.join(chk.scratch, name)
    cfg = tla.cfg_text(dict(consts, Flat=False), spec='Spec', invariants=['ImplSoundInv'])
    r = tla.run_tlc('PathStrings', cfg, wd, workers=4)
    if r.violated != 'ImplSoundInv':
        raise tla.MachineryError(f'negative model: TLC did not refute ImplSoundInv (rc={r.returncode}, '
                                 f'violated={r.violated}); the mechanism model is vacuous')
    chk.coverage.setdefault('negative_models', []).append(
        dict(module='PathStrings/impl', invariant='ImplSoundInv', result='refuted (as required)',
             states=r.distinct, constants={k: (sorted(v) if isinstance(v, set) else v) for k, v in consts.items()}))
    name, consts = NEGATIVE_CTRL
    wd = os.path.join(chk.scratch, name)
    cfg = tla.cfg_text(dict(consts, Flat=False), spec='Spec', invariants=['ImplSoundInv'] + INVARIANTS)
    r = tla.require_ok(tla.run_tlc('PathStrings', cfg, wd, workers=4), 'PathStrings/impl-ctrl')
    chk.coverage['negative_models'].append(
        dict(module='PathStrings/impl-ctrl', invariant='ImplSoundInv', result='holds (one PI target, no name clash)',
             states=r.distinct))


def run(chk: core.Check) -> None:
    core.setup_repo_path()
    chk.assumptions += [
        'specification spec/XDMX.tla + spec/PathStrings.tla (on the axes/predicates of spec/XDM.tla) is the oracle; '
        'TLC proved Eval(path(n)) = {n} and injectivity for all four schemes on every tree before anything is replayed; '
        'libxml2 must select the same node for an XPath 1.0 transliteration of the structured steps (else exit 2)',
        'node.path is document-style: for fragment=True trees (R3) it is compared as a string and evaluated with the '
        'implied-document reading of the same root only (TLC: no document-style path is sound in fragment mode)',
        'namespace nodes are returned by select() as URI strings: identity checked through token.select(XPathContext) only',
        'xml.etree: declared prefixes are passed as namespaces=; document-level comments/PIs are lxml-only',
        'parentless single comment/PI nodes (R4) are not accepted as roots by the API: only node.path is compared',
        'extended documents (R5) are built by get_document_node(replace=True) (xml.etree, lxml) and by '
        'fn:parse-xml-fragment in an lxml context (under xml.etree that function drops comments/PIs and adds the '
        'parser\'s static namespaces as namespace nodes: tree building, not judged here)',
        'a document-rooted node tree handed over again with fragment=True (get_node_tree(doc_node, fragment=True)) is not a '
        'root kind of the universe: the element keeps its document parent and fn:path answers () by design of the root check',
        'namespace names that XPath itself cannot spell in Q{..} are excluded: leading/double spaces (EQName URIs are '
        'whitespace-normalised), braces, strings rejected by xs:anyURI (XQST0046 is implementation-dependent); schema node '
        'trees (SchemaElementNode.path) are outside the XML tree quantifier of C14',
        'zero-length text chunks are nodes of the tree as the tree builders define it (XDM itself has no empty text nodes)',
        'shared compiled expressions: history = the sequence of trees of one worker process (order fixed by the sorted, '
        'root-name-interleaved job list); a failure is replayed from the first and the previous tree',
    ]
    negative_model(chk)
    cfgs = CONFIGS[chk.tier]
    only = os.environ.get('VERIF_C14_ONLY')      # development aid: comma separated configuration names
    if only:
        cfgs = [c for c in cfgs if c[0] in only.split(',')]
    cfgs = [(c[0], dict({'Flat': False}, **c[1]), c[2] if len(c) > 2 else None) for c in cfgs]
    chk.coverage['configs'] = [dict(name=n, name_binding=a, **{k: (sorted(v) if isinstance(v, set) else v)
                                                               for k, v in c.items()}) for n, c, a in cfgs]
    all_oracle = 0
    from concurrent.futures import ThreadPoolExecutor

    def tlc_job(name, consts):
        wd = os.path.join(chk.scratch, name)
        dot = os.path.join(wd, 'graph.dot')
        os.makedirs(wd, exist_ok=True)
        cfg = tla.cfg_text(consts, spec='Spec', invariants=INVARIANTS)
        return tla.run_tlc('PathStrings', cfg, wd, dump_dot=dot, workers=4, heap='4g'), dot

    pool = ThreadPoolExecutor(max_workers=3)     # TLC runs overlap with the replay of earlier configurations
    futs = [(name, consts, alpha, pool.submit(tlc_job, name, consts)) for name, consts, alpha in cfgs]
    pool.shutdown(wait=False)
    for name, consts, alpha, fut in futs:
        r, dot = fut.result()
        tla.require_ok(r, f'PathStrings/{name}')
        chk.model(f'PathStrings/{name}', r)
        t0 = time.time()
        g = tla.load_dot(dot)
        os.remove(dot)
        trees: dict = {}
        for sid, s in g.states.items():
            trees.setdefault((s['parent'], s['kind'], s['decl']), [{}, []])[0][s['cur']] = dict(s['txt'])
        for s, d, a, args in g.edges:
            ss, ds = g.states[s], g.states[d]
            trees[(ss['parent'], ss['kind'], ss['decl'])][1].append((ss['cur'], ds['cur'], dict(args[0])))
        n_edges = len(g.edges)
        n_states = len(g.states)
        del g
        root_cfg = consts['RootCfg']
        jobs = []
        for (p, k, d), (sts, eds) in trees.items():
            if len(eds) != len(sts) - 1:
                raise tla.MachineryError(f'state graph of tree {p} {k} {d} is not a tree: {len(sts)} states, {len(eds)} edges')
            doclevel = sum(1 for x in p if x == 0) > 1
            if root_cfg == 'R5':     # '' text chunks cannot be written as XML text: no parse-xml-fragment route
                libs = ('etree', 'lxml') + (() if 'te' in k else ('lxml-parse',))
            elif root_cfg == 'R6':   # Element + fragment=False, and an already built element tree promoted afterwards
                libs = ('etree', 'lxml', 'etree-promoted', 'lxml-promoted')
            else:
                libs = ('lxml',) if doclevel else ('etree', 'lxml')
            jobs.append((p, k, d, root_cfg, sts, eds, libs, alpha))
        jobs.sort(key=lambda j: (j[0], j[1], j[2]))
        # consecutive trees of a worker get DIFFERENT root names / namespaces (history of the shared tokens)
        by_root: dict = {}
        for j in jobs:
            by_root.setdefault(next((x for x in j[1] if x in TAG), j[1][0]), []).append(j)
        groups = [by_root[r] for r in sorted(by_root)]
        jobs = [g[i] for i in range(max(map(len, groups))) for g in groups if i < len(g)]
        chunks = core.chunked(jobs, 64)
        results = core.pool_map(chunk_worker, chunks, procs=int(os.environ.get('VERIF_PROCS', '16')))
        for stats, fails, odis, n_odis, samples in results:
            chk.add('transitions', stats['transitions'])
            chk.add('evaluations', stats['evaluations'])
            chk.add('string_comparisons', stats['string_checks'])
            chk.add('roundtrip_evaluations', stats['select_checks'])
            chk.add('second_oracle_evaluations', stats['lx_evals'])
            chk.add('history_evaluations_on_shared_tokens', stats.get('history_checks', 0))
            chk.add('evaluations_from_other_context_items', stats.get('context_item_checks', 0))
            chk.add('distinct_nontrivial', stats['nontrivial'])
            chk.add('traces_validated_against_impl', stats['states'])
            all_oracle += n_odis
            for s in samples:
                chk.sample(s)
            for d in odis:
                chk.coverage.setdefault('oracle_disagreements', []).append(d)
            for feat, cnt, case, exp, obs in fails:
                chk.fail(feat, case, exp, obs, what=f'{feat.get("api")} {feat.get("scheme", "")} node {case.get("node")} '
                                                    f'of {case.get("xml", "")} [{case["root"]}/{case["lib"]}]')
                if cnt > 1:
                    for idx, kf in enumerate(chk.known):
                        if core.match_pattern(kf['fingerprint'], core.jsonable(feat)):
                            chk.known_hits[idx] = chk.known_hits.get(idx, 0) + cnt - 1
                            break
        print(f'  {name}: trees={len(trees)} states={n_states} edges={n_edges} tlc={r.wall_s:.1f}s '
              f'replay={time.time() - t0:.1f}s', flush=True)
    if os.environ.get('VERIF_C14_CLASSES'):      # development aid: every unmatched failure class, one line each
        import collections
        cls = collections.Counter()
        for f in chk.failures:
            cls[' '.join(f'{k}={v}' for k, v in sorted(f['features'].items())
                         if v not in (None, False) and k not in ('lib', 'parser', 'mode'))] += 1
        with open(os.environ['VERIF_C14_CLASSES'], 'w') as fh:
            fh.write('\n'.join(f'{n} {k}' for k, n in sorted(cls.items())) + '\n')
    chk.coverage['exhaustive'] = True
    cov = chk.coverage
    if not (cov.get('transitions') and cov.get('distinct_nontrivial') and cov.get('second_oracle_evaluations')
            and cov.get('roundtrip_evaluations')):
        raise tla.MachineryError(f'vacuous run: transitions={cov.get("transitions")} nontrivial='
                                 f'{cov.get("distinct_nontrivial")} second_oracle={cov.get("second_oracle_evaluations")}')
    chk.coverage['rule'] = ('every state of the TLC graph of PathStrings is one node of one tree (validated on each library: '
                            'all path strings + round trips); every edge is one path step replayed from the real parent '
                            'node; non-trivial = the node has a sibling of the same node kind, so the position / name '
                            'test decides')
    if all_oracle:
        raise tla.MachineryError(f'specification and libxml2 disagree on {all_oracle} paths, e.g. '
                                 f'{chk.coverage["oracle_disagreements"][:3]}')
