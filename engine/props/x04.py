"""X04 (extension, not one of the listed properties): the available documents of the dynamic context as a resource map --
spec/Resources.tla; fn:doc, fn:doc-available, fn:document-uri, fn:root, identity and order across documents.

TLC explores the histories of a caller that adds / removes documents between evaluations and asks questions; the laws
(doc-available <=> doc returns a node, identity, total order between different documents, answers depend on the current
mapping only) are TLC invariants.  Every EDGE of the graph is replayed along BFS paths from the initial state with ONE
parser and ONE parsed token per expression text for the whole run (so state kept on tokens across contexts would show), a
fresh XPathContext(root, documents=<current mapping>) per evaluation, xml.etree and lxml documents, parsers 2.0/3.0/3.1.
"""
from __future__ import annotations

import os

from engine import core, tla

LEVEL = 'model_checking'
INVS = ['TypeOK', 'InvAvailable', 'InvIdentity', 'InvOrder', 'InvNoHistory', 'InvUnion', 'InvTextAvailable']
BASE = 'http://h/d/'
BASE_T = 'file:///nonexistent-x04/d/'        # a failed fetch must be immediate and local
CONTENT = {'a': 'line1\nline2\r\nline3', 'b': '', 'c': 'x\n'}
LINES = {'a': 3, 'b': 0, 'c': 1}
VERSIONS = ('2.0', '3.0', '3.1')


def spell(sp, u):
    return {'abs': f'{BASE}{u}.xml', 'rel': f'{u}.xml', 'dotdot': f'../d/{u}.xml'}[sp]


def expr_of(q):
    kind = q[0]
    if kind == 'text':
        _, f, sp, u = q
        s = {'abs': f'{BASE_T}{u}.txt', 'rel': f'{u}.txt', 'dotdot': f'../d/{u}.txt'}[sp]
        return {'tavail': f'unparsed-text-available("{s}")', 'text': f'unparsed-text("{s}")',
                'tlines': f'count(unparsed-text-lines("{s}"))'}[f]
    if kind == 'ask':
        _, f, sp, u = q
        s = spell(sp, u)
        other = spell({'abs': 'rel', 'rel': 'dotdot', 'dotdot': 'abs'}[sp], u)
        return {'available': f'doc-available("{s}")', 'doc': f'name(doc("{s}")/*)', 'same': f'doc("{s}") is doc("{other}")',
                'docuri': f'string(document-uri(doc("{s}")))', 'rootback': f'root(doc("{s}")//x) is doc("{other}")'}[f]
    if kind == 'coll':
        return {'ccount': 'count(collection("c1"))', 'cnames': f'for $d in collection("{BASE}c1") return name($d/*)',
                'cmissing': 'count(collection("c2"))', 'dcount': 'count(collection())', 'dempty': 'count(collection(()))'}[q[1]]
    if kind == 'colldoc':
        _, f, u = q
        return {'cisdoc': f'collection("c1")[name(*) = "{u}"] is doc("{u}.xml")',
                'cunion': f'count(collection("c1") | doc("{BASE}{u}.xml"))'}[f]
    _, f, u, v = q
    a, b = spell('rel', u), spell('abs', v)
    return {'is': f'doc("{a}") is doc("{b}")',
            'ordered': f'if (doc("{a}") << doc("{b}")) then not(doc("{b}") << doc("{a}")) else (doc("{b}") << doc("{a}"))',
            'count': f'count((doc("{a}"), doc("{b}"), doc("{a}"))/*)'}[f]


def expected(q, ans):
    if ans == ('FOUT1170',):
        return ('err', 'FOUT1170')
    if isinstance(ans, tuple) and ans[0] == 'content':
        return CONTENT[ans[1]]
    if isinstance(ans, tuple) and ans[0] == 'lines':
        return LINES[ans[1]]
    if ans == 'FODC0002':
        return ('err', 'FODC0002')
    if ans in ('true', 'false'):
        return ans == 'true'
    if ans == 'empty':
        return []
    if isinstance(ans, tuple) and ans[0] == 'n':
        return ans[1]
    if isinstance(ans, tuple) and ans[0] == 'set':
        return sorted(ans[1])
    if q[0] == 'ask' and q[1] == 'docuri':
        return f'{BASE}{ans}.xml'
    if q[0] == 'pair' and q[1] == 'count':
        return int(ans)
    return ans


class _Done(Exception):
    pass


def walk(job):
    """one tree library x parser version: replay every path of the plan"""
    import io
    import xml.etree.ElementTree as ET
    from lxml import etree as LET
    import elementpath
    from elementpath.xpath30 import XPath30Parser
    from elementpath.xpath31 import XPath31Parser
    lib, version, paths, part = job
    cls = {'2.0': elementpath.XPath2Parser, '3.0': XPath30Parser, '3.1': XPath31Parser}[version]
    parser = cls(base_uri=BASE if part == 'docs' else BASE_T)
    tokens = {}
    out = []

    def mkdoc(u):
        text = f'<{u}><x/></{u}>'
        return ET.parse(io.StringIO(text)) if lib == 'etree' else LET.parse(io.BytesIO(text.encode()))
    root = mkdoc('r')
    for path in paths:
        pool = {}                                  # the caller keeps its document objects across contexts
        for docs, coll, dflt, texts, q, ans in path:
            if q[0] not in ('ask', 'pair', 'coll', 'colldoc', 'text'):
                continue
            expr = expr_of(q)
            tok = tokens.get(expr)
            if tok is None:
                tok = tokens[expr] = parser.parse(expr)
            mapping = {f'{BASE}{u}.xml': pool.setdefault(u, mkdoc(u)) for u in docs}
            kw = {}
            if part == 'texts':
                kw['text_resources'] = {f'{BASE_T}{u}.txt': CONTENT[u] for u in texts}
            if coll != 'undef':
                kw['collections'] = {f'{BASE}c1': [pool.setdefault(u, mkdoc(u)) for u in sorted(coll)]}
            if dflt != 'undef':
                kw['default_collection'] = [pool.setdefault(u, mkdoc(u)) for u in sorted(dflt)]
            try:
                val = tok.evaluate(elementpath.XPathContext(root, documents=mapping, **kw))
                if q[0] == 'coll' and q[1] == 'cnames':
                    val = sorted(val) if isinstance(val, list) else [val]
                    raise _Done(val)
                if isinstance(val, list) and len(val) == 1:
                    val = val[0]
                got = val if isinstance(val, (bool, int, str)) or val == [] else ('value', repr(val))
                if isinstance(val, float) and val == int(val):
                    got = int(val)
            except _Done as d:
                got = d.args[0]
            except elementpath.ElementPathError as e:
                got = ('err', (getattr(e, 'code', '') or '').split(':')[-1])
            except Exception as e:  # noqa: BLE001
                got = ('escaped', type(e).__name__)
            want = expected(q, ans)
            if ans == 'either':
                want = got if got in ([], ('err', 'FODC0002')) else 'empty sequence or FODC0002'
            out.append((got == want, lib, version, sorted(docs) if part == 'docs' else sorted(texts), list(q), expr, want, got))
    return out


def run(chk: core.Check) -> None:
    n = 0
    for part in ('docs', 'texts'):
        consts = {'Uris': {'a', 'b'} if (chk.tier == 'quick' and part == 'docs') else {'a', 'b', 'c'},
                  'MaxSteps': 4 if (chk.tier == 'quick' or part == 'texts') else 3, 'Part': part}
        n += run_part(chk, part, consts)
    chk.add('evaluations', n)
    chk.coverage['rule'] = 'every state of Resources reached along a BFS history; one token per expression per (library, version) for the whole run'
    chk.coverage['exhaustive'] = True
    chk.assumptions += ['documents / collections / texts are given through XPathContext(documents=, collections=, default_collection=, text_resources=); nothing is fetched: missing texts use file: URIs that do not exist']


def run_part(chk, part, consts) -> int:
    wd = os.path.join(chk.scratch, 'res-' + part)
    dot = os.path.join(wd, 'g.dot')
    r = tla.require_ok(tla.run_tlc('Resources', tla.cfg_text(consts, invariants=INVS), wd, dump_dot=dot, coverage=True),
                       'Resources/' + part, min_distinct=100)
    chk.model(f'Resources/{part}-{chk.tier}', r)
    g = tla.load_dot(dot)
    chk.add('transitions', len(g.edges))
    from collections import deque
    out_edges = {}
    for s, d, a, args in g.edges:
        out_edges.setdefault(s, []).append(d)
    parent = {}
    order = []
    dq = deque(sorted(g.init))
    seen = set(g.init)
    while dq:
        s = dq.popleft()
        order.append(s)
        for d in sorted(out_edges.get(s, ())):
            if d not in seen:
                seen.add(d)
                parent[d] = s
                dq.append(d)

    def state_rec(sid):
        st = g.states[sid]
        coll = 'undef' if '#undef' in st['coll'] else sorted(st['coll'])
        dflt = 'undef' if '#undef' in st['dflt'] else sorted(st['dflt'])
        return (sorted(st['docs']), coll, dflt, sorted(st['texts']), tuple(st['q']), st['ans'])
    has_child = set(parent.values())
    paths = []
    for sid in order:
        if sid in has_child:
            continue                               # a leaf of the BFS tree: its path covers all its ancestors
        p, cur = [], sid
        while cur is not None:
            p.append(state_rec(cur))
            cur = parent.get(cur)
        paths.append(list(reversed(p)))
    if len(paths) < 50:
        raise tla.MachineryError('Resources: too few histories (vacuous)')
    jobs = []
    for lib in ('etree', 'lxml'):
        for version in (VERSIONS if part == 'docs' else ('3.0', '3.1')):
            for chunk in core.chunked(paths, max(1, len(paths) // 6)):
                jobs.append((lib, version, chunk, part))
    n = 0
    for out in core.pool_map(walk, jobs):
        for ok, lib, version, docs, q, expr, want, got in out:
            q = list(q) + ['', '', '']
            n += 1
            if not ok:
                form = q[1]
                chk.fail({'family': 'resources', 'form': form, 'lib': lib, 'version': version,
                          'expected': 'err' if isinstance(want, tuple) else 'value',
                          'observed': got[0] if isinstance(got, tuple) else 'value',
                          'same_uri': q[0] == 'pair' and q[2] == q[3], 'spelling': q[2] if q[0] in ('ask', 'text') else 'rel+abs',
                          'qkind': q[0]},
                         {'docs': docs, 'expr': expr, 'lib': lib, 'version': version}, want, got, f'{form} over {docs}')
            elif n % 5000 == 1:
                chk.sample({'docs': docs, 'expr': expr, 'lib': lib, 'version': version, 'value': got})
    chk.add('traces_validated_against_impl', len(paths) * len(jobs) // max(1, len(jobs) // 6) // 6)
    chk.add('distinct_nontrivial', len(g.states))
    chk.coverage.setdefault('constants', {})[part] = {k: sorted(v) if isinstance(v, set) else v for k, v in consts.items()}
    return n


def replay(rec) -> int:
    core.setup_repo_path()
    c = rec['case']
    q = ('x',)
    out = walk((c['lib'], c['version'], [], 'docs'))
    print('case', c, 'expected', rec['expected'], '(re-run ./check X04 to reproduce along its history)', out, q)
    return 0
