"""C02 -- node trees are faithful, strictly document-ordered images of the input XML.

Specifications (all expected values are computed by TLC):
  spec/XTree.tla           abstract input trees (items, text/tail, attribute counts, namespace
                           declarations, document-level siblings, call configuration) and the
                           DEFINITIONAL XDM image DefSeq / DefParent / DefChildren / DefStringValue
  spec/TreeBuild.tla       step machine transcribing build_node_tree / build_lxml_node_tree and the lazy
                           namespace / attribute nodes; refinement invariants machine == definition
  spec/NodeOps.tla         value-state machine of is << >> union intersect except root innermost outermost: operand
                           sets as variables (chains), operands as absolute / relative PATHS evaluated from an element
                           focus (item= and inside a step), fn:root sequences on one dynamic context (RootWalk)
  spec/TraceTreeBuild.tla  binding B: recorded (kind, position, parent position) events of larger random
                           real trees judged by TLC against TreeBuild and against the definition

Binding A (spec -> code):
  * every terminal vector of TreeBuild (one per input of the bounded universe) is rendered to a real
    xml.etree / lxml tree and compared with get_node_tree / build_node_tree / build_lxml_node_tree /
    XPathContext(root).root: nodes sorted by .position, iter() order, parent, children, string values,
    namespace prefixes, elements map.  DECISIVE is the definitional image; the exact position numbers of
    the transcribed algorithm are diagnostic (a drift is a note, the property only asks for order).
  * every transition of the NodeOps graph is evaluated with the 2.0/3.0/3.1 parsers (| also 1.0); the path-operand
    and RootWalk transitions on FRESH node trees (no attribute / namespace node exists before the expression
    reaches it; results are projected only after the evaluation).
  * text / tail chunks range over {None, '', 't'} ('' set programmatically: parsers never produce it).
  * the NodeOps trees are rendered EQUAL-VALUED (every text 'x', attribute values '1' / '', comments / PIs 'c':
    strings CPython shares) and have childless elements carrying attributes / namespace nodes; nodes are
    recognised by object identity and by their place in parent.children, never by content.
Binding B (code -> spec): see TraceTreeBuild.tla.
Second oracle for the SPEC (never for the code): libxml2 (lxml .xpath) -- document order of //node(),
string(.) of the document and of every element, attribute / namespace counts; disagreement = exit 2.

Implementation-defined points kept out of the vectors: xmlns="" undeclarations (lxml and libxml2 both
report a (None, '') binding), relative order of the namespace nodes and of the
attributes inside one element (compared as sets; positions must be unique and inside the block).
"""
from __future__ import annotations

import json
import os
import random
import re
import time
import xml.etree.ElementTree as ET
from collections import deque

import lxml.etree as LX

from .. import core, tla

LEVEL = 'model_checking'
PROCS = max(1, int(os.environ.get('VERIF_PROCS', '16')))     # worker processes (TLC workers and replay pool)
XMLNS = 'http://www.w3.org/XML/1998/namespace'
fs = frozenset
E = fs()

ALLK = {"e", "c", "p"}
BOOL = {True, False}
ALLCFG = dict(Variants={"etree", "lxml"}, RootArgs={"elem", "tree"}, Fragments={"none", "true", "false"})
NOEMPTY = {False}      # EmptyOpts: no '' chunks
NS4 = {E, fs({"p"}), fs({"xml"}), fs({"xml", "p"})}

TB_CONFIGS = {
    'quick': [
        # every call configuration x every small tree with every feature
        ('cfg2', dict(MaxItems=2, ItemKinds=ALLK, TextOpts=BOOL, TailOpts=BOOL, EmptyOpts=NOEMPTY, AttrCounts={0, 1},
                      DeclOpts={E, fs({"p"})}, NsArgs=NS4, MaxSibs=0, **ALLCFG)),
        # lxml document-level comments / PIs before and after the root element
        ('sibs', dict(MaxItems=2, ItemKinds=ALLK, TextOpts=BOOL, TailOpts=BOOL, EmptyOpts=NOEMPTY, AttrCounts={0}, DeclOpts={E},
                      Variants={"lxml"}, RootArgs={"elem", "tree"}, Fragments={"none", "true", "false"},
                      NsArgs={E}, MaxSibs=2)),
        # all shapes up to 4 items: nesting, text / tail after every kind of child, pops
        ('shape4', dict(MaxItems=4, ItemKinds=ALLK, TextOpts=BOOL, TailOpts=BOOL, EmptyOpts=NOEMPTY, AttrCounts={0}, DeclOpts={E},
                        Variants={"etree", "lxml"}, RootArgs={"tree"}, Fragments={"none"}, NsArgs={E}, MaxSibs=0)),
        # the gap: namespace count x 'xml' declared or not x attribute count, at every depth
        ('gap3', dict(MaxItems=3, ItemKinds={"e"}, TextOpts={True}, TailOpts=BOOL, EmptyOpts=NOEMPTY, AttrCounts={0, 2},
                      DeclOpts={E, fs({"p"}), fs({"", "q"})}, Variants={"etree", "lxml"}, RootArgs={"elem"},
                      Fragments={"none"}, NsArgs=NS4, MaxSibs=0)),
        # the text / tail alphabet {None, '', 't'}: empty-string chunks (only programs create them) are non-None chunks
        ('empty3', dict(MaxItems=3, ItemKinds={"e", "c"}, TextOpts=BOOL, TailOpts=BOOL, EmptyOpts=BOOL, AttrCounts={0},
                        DeclOpts={E}, Variants={"etree", "lxml"}, RootArgs={"elem"}, Fragments={"none"}, NsArgs={E},
                        MaxSibs=0)),
    ],
    'thorough': [
        ('empty4', dict(MaxItems=4, ItemKinds={"e", "c"}, TextOpts={True}, TailOpts=BOOL, EmptyOpts=BOOL, AttrCounts={0},
                        DeclOpts={E}, Variants={"etree", "lxml"}, RootArgs={"elem", "tree"}, Fragments={"none"}, NsArgs={E},
                        MaxSibs=0)),
        ('cfg3', dict(MaxItems=3, ItemKinds=ALLK, TextOpts=BOOL, TailOpts=BOOL, EmptyOpts=NOEMPTY, AttrCounts={0, 1},
                      DeclOpts={E, fs({"p"})}, NsArgs=NS4, MaxSibs=0, **ALLCFG)),
        ('sibs3', dict(MaxItems=3, ItemKinds={"e", "c"}, TextOpts=BOOL, TailOpts=BOOL, EmptyOpts=NOEMPTY, AttrCounts={0}, DeclOpts={E},
                       Variants={"lxml"}, RootArgs={"elem", "tree"}, Fragments={"none", "true", "false"},
                       NsArgs={E}, MaxSibs=2)),
        ('shape5', dict(MaxItems=5, ItemKinds=ALLK, TextOpts=BOOL, TailOpts=BOOL, EmptyOpts=NOEMPTY, AttrCounts={0}, DeclOpts={E},
                        Variants={"etree", "lxml"}, RootArgs={"tree"}, Fragments={"none"}, NsArgs={E}, MaxSibs=0)),
        ('gap3full', dict(MaxItems=3, ItemKinds={"e"}, TextOpts=BOOL, TailOpts=BOOL, EmptyOpts=NOEMPTY, AttrCounts={0, 1, 2},
                          DeclOpts={E, fs({"p"}), fs({"", "q"})}, Variants={"etree", "lxml"},
                          RootArgs={"elem"}, Fragments={"none"},
                          NsArgs=NS4 | {fs({"", "p"})}, MaxSibs=0)),
        ('gap4', dict(MaxItems=4, ItemKinds={"e"}, TextOpts={True}, TailOpts={True}, EmptyOpts=NOEMPTY, AttrCounts={0, 2},
                      DeclOpts={E, fs({"p"})}, Variants={"etree", "lxml"}, RootArgs={"elem"},
                      Fragments={"none"}, NsArgs={E, fs({"xml", "p"})}, MaxSibs=0)),
    ],
}

OPERANDS = {"elems", "attrs", "nss", "texts", "kids", "odd", "leaves", "all", "top", "last"}
# path-spelled operands evaluated from an element focus
RAWPROBES = {"is", "self", "one", "parent", "root", "before", "intersect", "except", "list"}
CHAINSEQ = ["odd", "low", "elems", "kids"]       # NodeOps!ChainSeq (operand variables of the unparenthesised chains)
PATHS = dict(AbsPaths={"//*", "//@*"}, RelPaths={"*", "@*", ".//*"}, RelRel=False, PathCmpOps={"is", "<<"},
             ChainOps={"union", "intersect", "except"}, RawProbes=RAWPROBES)
PATHS_FULL = dict(AbsPaths={"//*", "//@*", "//text()"}, RelPaths={"*", "@*", ".//*", "text()", "."}, RelRel=True,
                  PathCmpOps={"is", "<<", ">>"}, ChainOps={"union", "intersect", "except"}, RawProbes=RAWPROBES)
NO_CONFIGS = {
    'quick': [
        # comments as children, PIs as lxml document-level siblings (thorough: both kinds everywhere)
        # no element text: LEAF elements (and a childless root) carry attributes / namespace nodes; text nodes are tails
        ('ops2', dict(MaxItems=2, ItemKinds={"e", "c"}, TextOpts={False}, TailOpts={True}, AttrCounts={2},
                      DeclOpts={fs({"p"})}, NsArgs={E}, MaxSibs=1, SibKinds={"p"},
                      Operands=OPERANDS - {"all", "top", "last"}, MaxSteps=2, **PATHS, **ALLCFG)),
    ],
    'thorough': [
        ('ops2', dict(MaxItems=2, ItemKinds={"e", "c"}, TextOpts={False}, TailOpts={True}, AttrCounts={2},
                      DeclOpts={fs({"p"})}, NsArgs={E}, MaxSibs=1, SibKinds={"c", "p"}, Operands=OPERANDS, MaxSteps=2,
                      **PATHS_FULL, **ALLCFG)),
        ('ops3', dict(MaxItems=3, ItemKinds={"e", "c", "p"}, TextOpts={True}, TailOpts={True}, AttrCounts={1},
                      DeclOpts={fs({"p"})}, NsArgs={E}, MaxSibs=0, SibKinds={"c"}, Operands=OPERANDS - {"all", "top"}, MaxSteps=2, **PATHS,
                      Variants={"etree", "lxml"}, RootArgs={"elem", "tree"}, Fragments={"none", "false"})),
    ],
}
TRACES = {'quick': dict(count=240, lo=10, hi=60), 'thorough': dict(count=2400, lo=10, hi=60)}

FRAG = {"none": None, "true": True, "false": False}
NSURI = {'p': 'urn:P', 'q': 'urn:Q', 'xml': XMLNS, '': 'urn:D'}


# ---------------------------------------------------------------------------------------
# binding table: abstract input -> real tree (dumb, 1:1)

class Built:
    """A real xml.etree / lxml tree made from one abstract input, and the call arguments."""

    def __init__(self, cfg: dict, tree: dict, samevals: bool = False):
        """samevals: EQUAL-VALUED rendering (every text / tail 'x', attribute values '1' and '', every comment and
        PI content 'c'): CPython shares such strings, so node identity must not be confused with value identity.
        Nodes are then recognised by object identity and by their place in parent.children only."""
        self.cfg, self.tree = cfg, tree
        self.samevals = samevals
        self.variant = cfg['variant']
        n = tree['n']
        par, knd, txt, tl, nat, decl = (tree[k] for k in ('par', 'knd', 'txt', 'tl', 'nat', 'decl'))
        etx = tree.get('etx') or [False] * n       # the chunk is the empty string '' (a non-None chunk)
        etl = tree.get('etl') or [False] * n
        self.etx, self.etl = etx, etl
        self.empties = [f't{i}' for i in range(1, n + 1) if etx[i - 1]] + [f'l{i}' for i in range(1, n + 1) if etl[i - 1]]
        kids: dict[int, list[int]] = {i: [] for i in range(0, n + 1)}
        for i in range(1, n + 1):
            kids[par[i - 1]].append(i)
        self.kids = kids
        self.objs: dict[int, object] = {}
        if self.variant == 'etree':
            if tree['pre'] or tree['post'] or any(decl):
                raise tla.MachineryError('xml.etree input with declarations or document-level siblings')

            def mk(i, parent_obj):
                k = knd[i - 1]
                if k == 'e':
                    attrib = {f'x{j}': (('1', '')[(j - 1) % 2] if samevals else f'v{i}_{j}') for j in range(1, nat[i - 1] + 1)}
                    o = ET.Element('a' if i % 2 else 'b', attrib) if parent_obj is None else \
                        ET.SubElement(parent_obj, 'a' if i % 2 else 'b', attrib)
                    if txt[i - 1]:
                        o.text = '' if etx[i - 1] else 'x' if samevals else f't{i}'
                    for c in kids[i]:
                        mk(c, o)
                else:
                    o = ET.Comment('c' if samevals else f'c{i}') if k == 'c' else \
                        ET.ProcessingInstruction('p', 'c' if samevals else f'p{i}')
                    parent_obj.append(o)
                if tl[i - 1]:
                    o.tail = '' if etl[i - 1] else 'x' if samevals else f'l{i}'
                self.objs[i] = o
                return o
            self.root = mk(1, None)
            self.doc = ET.ElementTree(self.root)
            self.text = None
        else:
            def ser(i):
                k = knd[i - 1]
                if k == 'e':
                    s = '<' + ('a' if i % 2 else 'b')
                    for pfx in sorted(decl[i - 1]):
                        s += f' xmlns="urn:d{i}"' if pfx == '' else f' xmlns:{pfx}="urn:{pfx}{i}"'
                    for j in range(1, nat[i - 1] + 1):
                        s += f' x{j}="{("1", "")[(j - 1) % 2]}"' if samevals else f' x{j}="v{i}_{j}"'
                    s += '>' + (('x' if samevals else f't{i}') if txt[i - 1] and not etx[i - 1] else '')
                    s += ''.join(ser(c) for c in kids[i])
                    s += '</' + ('a' if i % 2 else 'b') + '>'
                elif k == 'c':
                    s = '<!--c-->' if samevals else f'<!--c{i}-->'
                else:
                    s = '<?p c?>' if samevals else f'<?p p{i}?>'
                return s + (('x' if samevals else f'l{i}') if tl[i - 1] and not etl[i - 1] else '')

            def sib(kind, j):
                if samevals:
                    return '<!--c-->' if kind == 'c' else '<?p c?>'
                return f'<!--sc{j}-->' if kind == 'c' else f'<?p sp{j}?>'
            self.text = ''.join(sib(k, j + 1) for j, k in enumerate(tree['pre'])) + ser(1) + \
                ''.join(sib(k, 101 + j) for j, k in enumerate(tree['post']))
            self.root = LX.fromstring(self.text)
            self.doc = self.root.getroottree()
            its = list(self.root.iter())
            if len(its) != n:
                raise tla.MachineryError(f'lxml rendering has {len(its)} items, abstract input {n}: {self.text}')
            for i, o in enumerate(its, 1):
                self.objs[i] = o
                # '' chunks cannot be written as XML text (a parser yields None): they are set programmatically
                if etx[i - 1]:
                    o.text = ''
                if etl[i - 1]:
                    o.tail = ''
        self.sibs: dict[int, object] = {}       # lxml document-level comments / PIs: NodeOps sub index -> object
        if self.variant == 'lxml':
            for j, o in enumerate(reversed(list(self.root.itersiblings(preceding=True))), 1):
                self.sibs[j] = o
            for j, o in enumerate(self.root.itersiblings(), 101):
                self.sibs[j] = o
        self.obj2item = {id(o): i for i, o in self.objs.items()}
        self.obj2sib = {id(o): j for j, o in self.sibs.items()}
        self.arg = self.root if cfg['rootarg'] == 'elem' else self.doc
        ns = cfg['nsarg']
        self.namespaces = {p: NSURI[p] for p in sorted(ns)} if ns else None
        self.fragment = FRAG[cfg['fragment']]

    def xml(self) -> str:
        s = self.text if self.text is not None else ET.tostring(self.root, encoding='unicode')
        return s + (f"   [chunks set to '': {' '.join(self.empties)}]" if self.empties else '')

    def entries(self):
        """The public ways to obtain the node tree of this input."""
        import elementpath
        from elementpath import get_node_tree, XPathContext
        from elementpath.tree_builders import build_node_tree, build_lxml_node_tree
        yield 'get_node_tree', lambda: get_node_tree(self.arg, self.namespaces, fragment=self.fragment)
        if self.variant == 'etree':
            yield 'build_node_tree', lambda: build_node_tree(self.arg, self.namespaces, fragment=self.fragment)
        else:
            yield 'build_lxml_node_tree', lambda: build_lxml_node_tree(self.arg, fragment=self.fragment)
        yield 'XPathContext', lambda: XPathContext(self.arg, self.namespaces, fragment=self.fragment).root


_TOK = re.compile(r'(sc|sp|[tlcpv])(\d+)(?:_(\d+))?')
KIND = {'document': 'd', 'element': 'e', 'namespace': 'ns', 'attribute': 'a', 'text': 't', 'comment': 'c',
        'processing-instruction': 'p'}


def chunk_literal(c, built=None) -> str:
    k, src, sub = c
    if built is not None and ((k == 't' and built.etx[src - 1]) or (k == 'l' and built.etl[src - 1])):
        return ''
    if k in ('t', 'l', 'c', 'p'):
        return f'{k}{src}'
    if k in ('sc', 'sp'):
        return f'{k}{sub}'
    raise ValueError(c)


class Projection:
    """Real node tree -> abstract nodes.  Pure projection: kind from node_kind, item from object identity
    (elements) or from the unique content literal (text, comment, PI), no ordering knowledge."""

    def __init__(self, built: Built, root_node):
        self.built = built
        self.root_node = root_node
        self.nodes = list(root_node.iter())          # iter() order
        self.problems: list[tuple[str, str]] = []
        descs = []
        for nd in self.nodes:
            k = KIND.get(nd.node_kind, '?')
            if k == 'd':
                d = ('d', 0, None)
            elif k == 'e':
                d = ('e', built.obj2item.get(id(nd.value), -1), None)
            elif k in ('ns', 'a'):
                par = nd.parent
                d = (k, built.obj2item.get(id(par.value), -1) if par is not None else -1, None)
            elif k in ('c', 'p') and (id(nd.value) in built.obj2item or id(nd.value) in built.obj2sib):
                # comment / PI nodes wrap the tree object: recognised by object identity
                d = (k, built.obj2item[id(nd.value)], None) if id(nd.value) in built.obj2item else \
                    ('s' + k, 0, built.obj2sib[id(nd.value)])
            elif k == 't' and (nd.string_value == '' or built.samevals):
                # an empty text chunk has no content literal: it is the text of its parent when it is the first
                # child, else the tail of the element / comment / PI node right before it in parent.children
                par = nd.parent
                sibs = list(par.children) if par is not None and KIND.get(par.node_kind) == 'e' else []
                at = next((u for u, x in enumerate(sibs) if x is nd), None)
                if at is None:
                    d = ('t', -1, None)
                elif at == 0:
                    d = ('t', built.obj2item.get(id(par.value), -1), None)
                else:
                    prev = sibs[at - 1]
                    pk = KIND.get(prev.node_kind, '?')
                    if pk == 'e':
                        d = ('l', built.obj2item.get(id(prev.value), -1), None)
                    elif pk in ('c', 'p'):
                        m = _TOK.fullmatch(prev.string_value or '')
                        d = ('l', built.obj2item[id(prev.value)] if id(prev.value) in built.obj2item else
                             int(m.group(2)) if m and m.group(1) == pk else -1, None)
                    else:
                        d = ('t', -1, None)
            else:
                m = _TOK.fullmatch(nd.string_value or '')
                if not m:
                    d = (k, -1, None)
                else:
                    t, num = m.group(1), int(m.group(2))
                    if k == 't' and t in ('t', 'l'):
                        d = (t, num, None)
                    elif k == 'c' and t in ('c', 'sc'):
                        d = ('c', num, None) if t == 'c' else ('sc', 0, num)
                    elif k == 'p' and t in ('p', 'sp'):
                        d = ('p', num, None) if t == 'p' else ('sp', 0, num)
                    else:
                        d = (k, -1, None)
            descs.append(d)
        self.raw = descs
        # ordinals of namespace / attribute nodes: by position inside the element's block
        order = sorted(range(len(self.nodes)), key=lambda j: self.nodes[j].position)
        cnt: dict = {}
        full = [None] * len(descs)
        for j in order:
            k, src, sub = descs[j]
            if k in ('ns', 'a'):
                cnt[(k, src)] = cnt.get((k, src), 0) + 1
                full[j] = (k, src, cnt[(k, src)])
            else:
                full[j] = (k, src, sub if sub is not None else 0)
        self.desc = full
        self.by_position = [full[j] for j in order]
        self.positions = [self.nodes[j].position for j in order]
        self.index = {id(nd): j for j, nd in enumerate(self.nodes)}


def sv_tokens(s: str) -> list[str]:
    return [m.group(0) for m in _TOK.finditer(s)]


def token_class(t: str, tree) -> str:
    m = _TOK.fullmatch(t)
    k, num = m.group(1), int(m.group(2))
    if k == 'l' and 1 <= num <= tree['n']:
        return 'tail_of_' + {'e': 'element', 'c': 'comment', 'p': 'pi'}[tree['knd'][num - 1]]
    return {'t': 'text', 'c': 'comment_or_pi_content', 'p': 'comment_or_pi_content',
            'sc': 'doclevel_comment_or_pi_content', 'sp': 'doclevel_comment_or_pi_content'}.get(k, k)


def sv_causes(exp: str, obs: str, tree) -> list[str]:
    """Fingerprint of a string-value mismatch (classification of the DIFFERENCE only, one entry per cause):
    missing:<class>, extra:<class>, order:element_tail_before_descendant_text, order:other, other."""
    et, ot = sv_tokens(exp), sv_tokens(obs)
    causes = {'missing:' + token_class(t, tree) for t in et if t not in ot}
    causes |= {'extra:' + token_class(t, tree) for t in ot if t not in et}
    ce = [t for t in et if t in ot]
    co = [t for t in ot if t in et]
    if ce != co:
        par = tree['par']

        def is_desc(j, i):     # item j strictly below item i
            while j:
                j = par[j - 1]
                if j == i:
                    return True
            return False
        only_tail = len(set(co)) == len(co) == len(ce)
        if only_tail:
            pos = {t: n for n, t in enumerate(ce)}
            for a in range(len(co)):
                for b in range(a + 1, len(co)):
                    if pos[co[a]] > pos[co[b]]:      # inverted pair: co[a] printed too early
                        m1, m2 = _TOK.fullmatch(co[a]), _TOK.fullmatch(co[b])
                        i, j = int(m1.group(2)), int(m2.group(2))
                        if not (m1.group(1) == 'l' and tree['knd'][i - 1] == 'e' and m2.group(1) in ('t', 'l')
                                and is_desc(j, i)):
                            only_tail = False
        causes.add('order:element_tail_before_descendant_text' if only_tail else 'order:other')
    if not causes:
        causes.add('other')
    return sorted(causes)


def judge_tree(vec: dict, built: Built, entry: str, root_node) -> tuple[list, list, Projection]:
    """Compare one real node tree with the definitional image computed by TLC.
    Returns (failures, notes, projection); a failure = (check, features, expected, observed)."""
    cfg, tree = vec['cfg'], vec['tree']
    d = vec['def']
    exp_desc = [tuple(x['d']) for x in d]
    fails, notes = [], []
    pr = Projection(built, root_node)
    base = dict(part='tree', variant=cfg['variant'], rootarg=cfg['rootarg'], fragment=cfg['fragment'], entry=entry)

    def fail(check, exp, obs, **extra):
        f = dict(base, check=check)
        f.update(extra)
        fails.append((check, f, exp, obs))

    # 1. one node per constituent; positions unique and strictly increasing in document order
    if len(set(pr.positions)) != len(pr.positions):
        dup = sorted({p for p in pr.positions if pr.positions.count(p) > 1})
        kinds = sorted({pr.desc[j][0] for j in range(len(pr.nodes)) if pr.nodes[j].position in dup})
        fail('positions_unique', 'all distinct', dict(duplicated=dup), kinds=','.join(kinds))
    if pr.by_position != exp_desc:
        eset, oset = set(exp_desc), set(pr.by_position)
        missing, extra = sorted(eset - oset), sorted(oset - eset, key=str)
        if missing or extra:
            fail('node_set', exp_desc, pr.by_position, missing=','.join(sorted({m[0] for m in missing})) or '-',
                 extra=','.join(sorted({str(m[0]) for m in extra})) or '-')
        else:
            k = next(j for j in range(len(exp_desc)) if pr.by_position[j] != exp_desc[j])
            fail('position_order', exp_desc, pr.by_position, kinds=','.join(sorted({exp_desc[k][0], pr.by_position[k][0]})))
    # 2. iter() (= iter_document(), used by << >>) yields document order
    if [(x[0], x[1]) for x in pr.desc] != [(x[0], x[1]) for x in exp_desc] and not fails:
        fail('iter_order', exp_desc, pr.desc)
    if fails:
        return fails, notes, pr
    rank = {x: j for j, x in enumerate(exp_desc, 1)}          # descriptor -> definitional rank
    node_rank = [rank[x] for x in pr.desc]
    # 3. parent / children links
    for j, nd in enumerate(pr.nodes):
        e = d[node_rank[j] - 1]
        p = nd.parent
        op = 0 if p is None else (node_rank[pr.index[id(p)]] if id(p) in pr.index else -1)
        if op != e['p']:
            fail('parent', e['p'], op, kind=pr.desc[j][0])
        if pr.desc[j][0] in ('d', 'e'):
            och = [node_rank[pr.index[id(c)]] if id(c) in pr.index else -1 for c in nd.children]
            if och != list(e['ch']):
                fail('children', list(e['ch']), och, kind=pr.desc[j][0])
    # 4. string values
    for j, nd in enumerate(pr.nodes):
        e = d[node_rank[j] - 1]
        k = pr.desc[j][0]
        if k in ('d', 'e'):
            exp = ''.join(chunk_literal(tuple(c), built) for c in e['sv'])
            obs = nd.string_value
            if obs != exp:
                for cause in sv_causes(exp, obs, tree):
                    fail('string_value', exp, obs, kind=k, cause=cause)
    # 5. namespace nodes and attributes of every element, as sets
    for j, nd in enumerate(pr.nodes):
        if pr.desc[j][0] != 'e':
            continue
        e = d[node_rank[j] - 1]
        i = pr.desc[j][1]
        opx = sorted((x.prefix or '') for x in nd.namespace_nodes)
        if opx != sorted(e['px']):
            fail('ns_prefixes', sorted(e['px']), opx)
        oav = sorted(x.string_value for x in nd.attributes)
        eav = sorted(f'v{i}_{a}' for a in range(1, tree['nat'][i - 1] + 1))
        if oav != eav:
            fail('attribute_values', eav, oav)
    # 6. elements map: every wrapped element / comment / PI object -> its node
    emap = root_node.elements
    want = {id(o): i for i, o in built.objs.items()}
    for i, o in built.objs.items():
        nd = emap.get(o)
        if nd is None or id(nd) not in pr.index or pr.desc[pr.index[id(nd)]][:2] != (tree['knd'][i - 1], i):
            fail('elements_map', f'item {i} -> its node', repr(nd), kind=tree['knd'][i - 1])
    # diagnostic only: exact numbers of the transcribed algorithm
    b = vec['built']
    algo = [(tuple(x[:3]), x[3]) for x in b]
    obs_pos = sorted(((pr.desc[j], pr.nodes[j].position) for j in range(len(pr.nodes))), key=lambda t: t[1])
    if [p for _, p in obs_pos] != [p for _, p in algo]:
        notes.append(f'positions differ from the TreeBuild transcription (order still definitional): {built.xml()}')
    return fails, notes, pr


# second oracle for the SPEC: libxml2
def libxml2_check(vec: dict, built: Built) -> list[str]:
    if built.variant != 'lxml':
        return []
    out = []
    d = vec['def']
    tree = vec['tree']
    has_doc_sibs = bool(tree['pre'] or tree['post'])
    # document order of the tree nodes below (and around) the root element
    exp = [tuple(x['d']) for x in d if x['d'][0] not in ('d', 'ns', 'a')]
    if not any(x['d'][0] == 'd' for x in d) and has_doc_sibs:
        pass   # the fragment configuration drops the document-level siblings; libxml2 always has the document
    else:
        obs = []
        for it in built.doc.xpath('//node()'):
            if isinstance(it, str):
                m = _TOK.fullmatch(str(it))
                if m:
                    obs.append((m.group(1), int(m.group(2)), 0))
                elif str(it) == '' and it.getparent() is not None:      # empty chunk: libxml2 says whose text / tail
                    obs.append(('l' if it.is_tail else 't', built.obj2item.get(id(it.getparent()), -1), 0))
                else:
                    obs.append(('?', str(it), 0))
            elif it.tag is LX.Comment or it.tag is LX.ProcessingInstruction:
                m = _TOK.fullmatch(it.text or '')
                t, num = (m.group(1), int(m.group(2))) if m else ('?', -1)
                obs.append((t, num, 0) if t in ('c', 'p') else (t, 0, num))
            else:
                obs.append(('e', built.obj2item.get(id(it), -1), 0))
        if not has_doc_sibs or any(x['d'][0] == 'd' for x in d):
            if obs != exp:
                out.append(f'document order: spec {exp} libxml2 {obs} on {built.text}')
    for x in d:
        k, src, _ = x['d']
        if k == 'e':
            o = built.objs[src]
            s = o.xpath('string(.)')
            e = ''.join(chunk_literal(tuple(c), built) for c in x['sv'])
            if s != e:
                out.append(f'string(.) of item {src}: spec {e!r} libxml2 {s!r} on {built.text}')
            if int(o.xpath('count(namespace::*)')) != len(x['px']):
                out.append(f'namespace count of item {src}: spec {sorted(x["px"])} libxml2 {o.xpath("namespace::*")} on {built.text}')
            if int(o.xpath('count(@*)')) != tree['nat'][src - 1]:
                out.append(f'attribute count of item {src} on {built.text}')
        elif k == 'd':
            s = built.doc.xpath('string(/)')
            e = ''.join(chunk_literal(tuple(c), built) for c in x['sv'])
            if s != e:
                out.append(f'string(/): spec {e!r} libxml2 {s!r} on {built.text}')
    return out


def plain(v):
    """TLA+ value (FrozenDict / tuple / frozenset) -> plain python (dict / list / sorted list)."""
    if isinstance(v, dict):
        return {k: plain(x) for k, x in v.items()}
    if isinstance(v, (tuple, list)):
        return [plain(x) for x in v]
    if isinstance(v, (set, frozenset)):
        return sorted(plain(x) for x in v)
    return v


def parse_vector_line(line: str):
    s = line.strip()
    if not s.startswith('"<<\\"c02'):
        return None
    s = s[1:-1].replace('\\"', '"').replace('\\\\', '\\')
    v = tla.parse_value(s)
    return v[0], plain(v[1]) if len(v) == 2 else [plain(x) for x in v[1:]]


def tree_worker(lines: list[str]):
    core.setup_repo_path()
    stats = dict(vectors=0, evaluations=0, nontrivial=0, lx=0)
    fails: dict = {}
    notes: set = set()
    oracle: list = []
    samples = []
    for line in lines:
        pv = parse_vector_line(line)
        if pv is None or pv[0] != 'c02':
            continue
        vec = pv[1]
        stats['vectors'] += 1
        built = Built(vec['cfg'], vec['tree'])
        if vec['tree']['n'] > 1 or len(vec['def']) > 3:
            stats['nontrivial'] += 1
        dis = libxml2_check(vec, built)
        stats['lx'] += 1 if built.variant == 'lxml' else 0
        oracle += dis[:2]
        for entry, fn in built.entries():
            stats['evaluations'] += 1
            try:
                root_node = fn()
            except Exception as ex:    # noqa: BLE001 -- an escaping exception is an observation
                fl = [('exception', dict(part='tree', check='exception', variant=vec['cfg']['variant'],
                                         rootarg=vec['cfg']['rootarg'], fragment=vec['cfg']['fragment'], entry=entry,
                                         exc=type(ex).__name__), 'a node tree', repr(ex))]
                nt = []
            else:
                fl, nt, _ = judge_tree(vec, built, entry, root_node)
            notes.update(n.split(':')[0] for n in nt)
            for check, feat, exp, obs in fl:
                key = json.dumps(feat, sort_keys=True)
                ent = fails.get(key)
                if ent is None:
                    fails[key] = [feat, 1, dict(kind='tree', cfg=vec['cfg'], tree=vec['tree'], entry=entry, check=check,
                                                xml=built.xml(), vec=vec), exp, obs]
                else:
                    ent[1] += 1
        if len(samples) < 1 and vec['tree']['n'] >= 2 and len(vec['def']) > 8:
            samples.append(dict(xml=built.xml(), cfg=vec['cfg'],
                                expected_document_order=[x['d'] for x in vec['def']]))
    return stats, list(fails.values()), sorted(notes), oracle[:5], len(oracle), samples


# ---------------------------------------------------------------------------------------
# NodeOps replay

_PARSERS = None


def parsers():
    global _PARSERS
    if _PARSERS is None:
        from elementpath import XPath1Parser, XPath2Parser
        from elementpath.xpath30 import XPath30Parser
        from elementpath.xpath31 import XPath31Parser
        _PARSERS = {'1.0': XPath1Parser, '2.0': XPath2Parser, '3.0': XPath30Parser, '3.1': XPath31Parser}
    return _PARSERS


_tok_cache: dict = {}


def get_token(version: str, text: str):
    key = (version, text)
    t = _tok_cache.get(key)
    if t is None:
        if len(_tok_cache) > 200000:
            _tok_cache.clear()
        try:
            t = parsers()[version]().parse(text)
        except Exception as ex:   # noqa: BLE001
            t = ex
        _tok_cache[key] = t
    return t


OPSYM = {'union': ['union', '|'], 'intersect': ['intersect'], 'except': ['except']}


def expr_for(prefix: str, action: str, args: tuple) -> list[tuple[str, tuple]]:
    """Expression texts for one transition: [(text, parser versions)], first = canonical (next prefix)."""
    v2 = ('2.0', '3.0', '3.1')
    if action == 'SetOp':
        op, name = args
        if op == 'rexcept':
            return [(f'(${name} except {prefix})', v2), (f'(${name} except $S)', v2)]
        out = [(f'({prefix} {op} ${name})', v2), (f'($S {op} ${name})', v2)]
        if op == 'union':
            out += [(f'({prefix} | ${name})', v2), (f'(${name} | $S)', ('1.0',) + v2)]
            p1 = prefix.replace(' union ', ' | ')
            if not any(w in p1 for w in ('intersect', 'except', 'innermost', 'outermost', 'root(')):
                out.append((f'({p1} | ${name})', ('1.0',)))      # XPath 1.0 has only '|'
        return out
    if action == 'Fn':
        f = args[0]
        if f == 'root':
            return [(f'({prefix}/root(.))', v2), ('($S/root())', v2),
                    ('(for $x in $S return root($x))/.', v2)]
        return [(f'{f}({prefix})', ('3.0', '3.1')), (f'{f}($S)', ('3.0', '3.1'))]
    raise ValueError(action)


def ops_eval(version, text, root_node, variables, fragment):
    from elementpath import XPathContext
    tok = get_token(version, text)
    if isinstance(tok, Exception):
        return ('err', type(tok).__name__, getattr(tok, 'code', None))
    try:
        ctx = XPathContext(root_node, fragment=fragment, variables=variables)
        return list(tok.select(ctx))
    except Exception as ex:    # noqa: BLE001
        return ('err', type(ex).__name__, getattr(ex, 'code', None))


def ops_tree_worker(job):
    core.setup_repo_path()
    import elementpath
    (inp, dseq, dpar, opnds, states, init_sid, out_edges) = job
    cfg = dict(variant=inp['variant'], rootarg=inp['rootarg'], fragment=inp['fragment'], nsarg=inp['nsarg'])
    tree = {k: inp[k] for k in ('n', 'par', 'knd', 'txt', 'tl', 'etx', 'etl', 'nat', 'decl', 'pre', 'post')}
    built = Built(cfg, tree, samevals=True)     # equal-valued content: identity is the node, not its value
    stats = dict(transitions=0, evaluations=0, nontrivial=0, skipped_trees=0)
    fails: dict = {}
    from elementpath import XPathContext
    root_node = XPathContext(built.arg, built.namespaces, fragment=built.fragment).root
    pr = Projection(built, root_node)
    exp_desc = [tuple(x) for x in dseq]
    if sorted(pr.desc, key=str) != sorted(exp_desc, key=str):
        stats['skipped_trees'] = 1      # the tree itself is not faithful: reported by the TreeBuild part
        return stats, [], []
    rank_of_node = {}
    node_of_rank = {}
    for j, nd in enumerate(pr.nodes):
        r = exp_desc.index(pr.desc[j]) + 1
        rank_of_node[id(nd)] = r
        node_of_rank[r] = nd
    M = len(exp_desc)
    kind = {r: exp_desc[r - 1][0] for r in range(1, M + 1)}

    def opnd(name):
        return opnds[name]
    # operand variables: the operand sets are the spec's (state variable opnds), bound in REVERSE document order
    base_vars = {nm: [node_of_rank[r] for r in reversed(sorted(v))] for nm, v in opnds.items()}
    base_vars['r'] = node_of_rank[exp_desc.index(('e', 1, 0)) + 1]
    frag = built.fragment

    def project(res):
        if isinstance(res, tuple) and res and res[0] == 'err':
            return res
        out = []
        for x in res:
            out.append(x if isinstance(x, bool) else rank_of_node.get(id(x), ('?', repr(x)[:40])))
        return out

    def record(feat, case, exp, obs):
        key = json.dumps(feat, sort_keys=True, default=str)
        ent = fails.get(key)
        if ent is None:
            fails[key] = [feat, 1, case, exp, obs]
        else:
            ent[1] += 1

    def outcome(exp, obs):
        if isinstance(obs, tuple):
            return 'error:' + str(obs[2] or obs[1])
        so, se = list(map(str, obs)), list(map(str, exp))
        if sorted(so) == sorted(se):
            return 'order'
        if set(so) == set(se):
            return 'dup'
        if set(so) < set(se):
            return 'missing'
        if set(so) > set(se):
            return 'extra'
        return 'wrong'

    rank_of_desc = {x: j for j, x in enumerate(exp_desc, 1)}
    elem_ranks = [r for r in range(1, M + 1) if kind[r] == 'e']

    def fresh_eval(version, text, item=None, variables=None, ctx=None):
        """Evaluate on a FRESH node tree (nothing lazily created yet) unless a context is handed over;
        the result is projected to ranks only AFTER the evaluation."""
        tok = get_token(version, text)
        if isinstance(tok, Exception):
            return ('err', type(tok).__name__, getattr(tok, 'code', None)), None
        try:
            if ctx is None:
                ctx = XPathContext(built.arg, built.namespaces, fragment=frag, item=item, variables=variables)
            res = list(tok.select(ctx))
        except Exception as ex:    # noqa: BLE001
            return ('err', type(ex).__name__, getattr(ex, 'code', None)), ctx
        if res and all(isinstance(x, bool) for x in res):
            return res, ctx
        p2 = Projection(built, ctx.root)
        rk = {id(nd): rank_of_desc.get(p2.desc[j], ('?', str(p2.desc[j]))) for j, nd in enumerate(p2.nodes)}
        return [rk.get(id(x), ('?', repr(x)[:40])) for x in res], ctx

    def elem_obj(r):
        return built.objs[exp_desc[r - 1][1]]

    def path_edges(dst, action):
        """Operands spelled as absolute / relative paths, evaluated from a focus that is an element (item= or
        inside a step), and the fn:root sequence on one dynamic context; all on fresh node trees."""
        c = states[dst][2]
        common = dict(part='ops', variant=cfg['variant'], rootarg=cfg['rootarg'], fragment=cfg['fragment'])
        if action == 'RootWalk':
            exp = list(c[1])
            stats['nontrivial'] += 1
            text = 'for $e in $r/descendant-or-self::* return ($e/root(), $e/@*/root(), $e/namespace::*/root())'
            v = ('2.0', '3.0', '3.1')[stats['transitions'] % 3]
            obs, _ = fresh_eval(v, text, variables={'r': built.root})
            stats['evaluations'] += 1
            def seq_outcome(o):
                return outcome(exp, o) if isinstance(o, tuple) or len(o) == len(exp) else \
                    ('roots_missing' if len(o) < len(exp) else 'roots_extra')
            if obs != exp:
                record(dict(common, action='RootWalk', spelling='for', parser=v, outcome=seq_outcome(obs)),
                       dict(kind='ops', sub='rootwalk', cfg=cfg, tree=tree, dseq=dseq, text=text, parser=v,
                            xml=built.xml()), exp, str(obs))
            # the same calls one after the other on ONE reused dynamic context
            obs, ctx = [], None
            variables = {f'e{r}': elem_obj(r) for r in elem_ranks}
            for r in elem_ranks:
                for t in (f'root($e{r})', f'$e{r}/@*/root()', f'$e{r}/namespace::*/root()'):
                    if ctx is None:
                        o, ctx = fresh_eval(v, t, variables=variables)
                    else:
                        o, _ = fresh_eval(v, t, ctx=ctx)
                    stats['evaluations'] += 1
                    if isinstance(o, tuple):
                        obs = o
                        break
                    obs += o
                if isinstance(obs, tuple):
                    break
            if obs != exp:
                record(dict(common, action='RootWalk', spelling='one_context', parser=v, outcome=seq_outcome(obs)),
                       dict(kind='ops', sub='rootwalk_ctx', cfg=cfg, tree=tree, dseq=dseq, parser=v, xml=built.xml()),
                       exp, str(obs))
            return
        tag, op, A, B, f = c
        v = ('2.0', '3.0', '3.1')[(f + len(A) + len(B) + stats['transitions']) % 3]
        if action == 'PathAny':
            exp = sorted(states[dst][0])
            if len(exp) > 1:
                stats['nontrivial'] += 1
            syms = ['union', '|'] if op == 'union' else [op]
            texts = [f'({A}) {sy} ({B})' for sy in syms]
        else:
            exp = [] if states[dst][1] == 'empty' else [states[dst][1] == 'true']
            stats['nontrivial'] += 1 if exp else 0
            texts = [f'(({A})[1]) {op} (({B})[1])']
        for text in texts:
            for how in ('item', 'step'):
                if how == 'item':
                    obs, _ = fresh_eval(v, text, item=elem_obj(f))
                    shown = text
                else:
                    shown = f'$f/({text})'
                    obs, _ = fresh_eval(v, shown, variables={'f': elem_obj(f)})
                stats['evaluations'] += 1
                if obs != exp:
                    record(dict(common, action=action, op=op, first=('abs' if A.startswith('//') else 'rel'),
                                second=('abs' if B.startswith('//') else 'rel'), focus=how,
                                focus_is_root_elem=(exp_desc[f - 1][1] == 1), parser=v,
                                outcome=(outcome(exp, obs) if action == 'PathAny' or isinstance(obs, tuple) else 'wrong_bool')),
                           dict(kind='ops', sub='path', cfg=cfg, tree=tree, dseq=dseq, text=shown, how=how, focus=f,
                                parser=v, A=A, B=B, xml=built.xml()), exp, str(obs))

    def chain_edge(dst, action, args):
        """$A op $B op $C (op $D) WITHOUT parentheses: the expected node set is the EBNF grouping (TLC)."""
        if action == 'Chain2':
            o, idx, disc = args[:2], [args[2], args[3], args[4]], args[5]
        else:
            i, d = args[3], args[4]
            o, disc = args[:3], args[5]
            idx = [((i - 1 + (q if d == 1 else 4 - q)) % 4) + 1 for q in range(4)]
        names = [CHAINSEQ[j - 1] for j in idx]
        exp = sorted(states[dst][0])
        if disc:
            stats['nontrivial'] += 1
        spell = [list(o)]
        if 'union' in o:
            spell.append(['|' if x == 'union' else x for x in o])
        vs = ('2.0', '3.0', '3.1')
        for sp in spell:
            text = f'${names[0]}' + ''.join(f' {op} ${nm}' for op, nm in zip(sp, names[1:]))
            for v in (vs[(stats['transitions']) % 3],):      # one grammar table per version family: rotate
                obs = project(ops_eval(v, text, root_node, base_vars, frag))
                stats['evaluations'] += 1
                if obs != exp:
                    record(dict(part='ops', action='Chain', ops=' '.join(o), discriminating=bool(disc), parser=v,
                                variant=cfg['variant'], rootarg=cfg['rootarg'], fragment=cfg['fragment'],
                                outcome=outcome(exp, obs)),
                           dict(kind='ops', sub='chain', cfg=cfg, tree=tree, dseq=dseq, opnds=opnds, text=text, parser=v,
                                xml=built.xml()), exp, str(obs))

    def raw_obj(r):
        k, src, sub = exp_desc[r - 1]
        return built.doc if k == 'd' else built.sibs[sub] if k in ('sc', 'sp') else built.objs[src]

    RAWTEXTS = {    # probe -> [(expression, context item is the raw object?)]
        'is': [('$v is $n', False), ('. is $n', True)],
        'self': [('.', True), ('$v', False), ('$v/self::node()', False)],
        'one': [('$v | $n', False), ('$n union $v', False)],
        'parent': [('$v/parent::*', False), ('parent::*', True)],
        'root': [('root($v)', False), ('root(.)', True), ('root()', True)],
        'before': [('$v << $last', False), ('. << $last', True)],
        'intersect': [('$all intersect $v', False), ('$v intersect $all', False), ('. intersect $all', True)],
        'except': [('$all except $v', False), ('$all except .', True)],
        'list': [('$all intersect $vs', False), ('$vs/.', False)],
    }

    def raw_edge(dst):
        """The caller hands in RAW objects of the input tree (item= / variables=): the node they stand for is the
        node of the tree.  Context built on the node tree (so that $n / $all can be bound) and on the raw root."""
        _, pb, x = states[dst][2]
        st = states[dst]
        exp = [st[1] == 'true'] if st[1] in ('true', 'false') else sorted(st[0])
        stats['nontrivial'] += 1
        raw = raw_obj(x)
        raw_ranks = [r for r in range(1, M + 1) if kind[r] in ('e', 'c', 'p', 'sc', 'sp')
                     or (kind[r] == 'd' and cfg['rootarg'] == 'tree')]
        variables = {'v': raw, 'n': node_of_rank[x], 'last': node_of_rank[M],
                     'all': [node_of_rank[r] for r in range(M, 0, -1)],
                     'vs': [raw_obj(r) for r in reversed(raw_ranks)]}
        v = ('2.0', '3.0', '3.1')[(x + stats['transitions']) % 3]
        common = dict(part='ops', action='Raw', probe=pb, raw_kind=kind[x], parser=v, variant=cfg['variant'],
                      rootarg=cfg['rootarg'], fragment=cfg['fragment'])
        for text, as_item in RAWTEXTS[pb]:
            tok = get_token(v, text)
            runs = [('node_tree_root', lambda: XPathContext(root_node, fragment=frag, item=raw if as_item else None,
                                                            variables=variables))]
            if pb in ('self', 'parent', 'root'):
                runs.append(('raw_root', None))
            for how, mk in runs:
                stats['evaluations'] += 1
                if mk is None:
                    obs, _ = fresh_eval(v, text, item=raw if as_item else None, variables={'v': raw})
                elif isinstance(tok, Exception):
                    obs = ('err', type(tok).__name__, getattr(tok, 'code', None))
                else:
                    try:
                        obs = project(list(tok.select(mk())))
                    except Exception as ex:    # noqa: BLE001
                        obs = ('err', type(ex).__name__, getattr(ex, 'code', None))
                if obs != exp:
                    record(dict(common, via=('item' if as_item else 'variable'), root=how,
                                outcome=(outcome(exp, obs) if isinstance(obs, tuple) or not exp or not isinstance(exp[0], bool)
                                         else 'wrong_bool')),
                           dict(kind='ops', sub='raw', cfg=cfg, tree=tree, dseq=dseq, text=text, as_item=as_item, how=how,
                                x=x, parser=v, xml=built.xml()), exp, str(obs))

    prefix = {init_sid: '$r'}
    queue = deque([init_sid])
    samples = []
    while queue:
        sid = queue.popleft()
        pre = prefix[sid]
        src = states[sid]
        for (dst, action, args) in out_edges.get(sid, ()):
            stats['transitions'] += 1
            if action in ('PathAny', 'PathCmpAny', 'RootWalk'):
                path_edges(dst, action)
                continue
            if action in ('Chain2', 'Chain3'):
                chain_edge(dst, action, args)
                continue
            if action == 'RawAny':
                raw_edge(dst)
                continue
            if action == 'CmpAny':
                op, a, b = states[dst][2]
                exp = states[dst][1] == 'true'
                if a != b:
                    stats['nontrivial'] += 1
                variables = {'a': node_of_rank[a], 'b': node_of_rank[b]}
                text = f'$a {op} $b'
                for v in (('2.0', '3.0', '3.1')[(a + b) % 3],):       # same operator methods in all versions: rotate
                    obs = ops_eval(v, text, root_node, variables, frag)
                    stats['evaluations'] += 1
                    if obs != [exp]:
                        record(dict(part='ops', action='Cmp', op=op, kind_a=kind[a], kind_b=kind[b], same=(a == b),
                                    parser=v, variant=cfg['variant'], rootarg=cfg['rootarg'], fragment=cfg['fragment'],
                                    outcome=('error:' + str(obs[2] or obs[1])) if isinstance(obs, tuple) else 'wrong_bool'),
                               dict(kind='ops', cfg=cfg, tree=tree, dseq=dseq, opnds=opnds, text=text, parser=v, a=a, b=b,
                                    xml=built.xml()), [exp], str(obs))
                # the top-level API on a quarter of the pairs (it re-parses on every call)
                if (a * 7 + b) % 4:
                    continue
                try:
                    obs = elementpath.select(root_node, text, fragment=frag, variables=variables)
                except Exception as ex:   # noqa: BLE001
                    obs = ('err', type(ex).__name__, getattr(ex, 'code', None))
                stats['evaluations'] += 1
                if obs is not exp:
                    record(dict(part='ops', action='Cmp', op=op, kind_a=kind[a], kind_b=kind[b], same=(a == b),
                                parser='select()', variant=cfg['variant'], rootarg=cfg['rootarg'],
                                fragment=cfg['fragment'],
                                outcome=('error:' + str(obs[2] or obs[1])) if isinstance(obs, tuple) else 'wrong_bool'),
                           dict(kind='ops', cfg=cfg, tree=tree, dseq=dseq, opnds=opnds, text=text, parser='select()', a=a, b=b,
                                xml=built.xml()), exp, str(obs))
                continue
            exp = sorted(states[dst][0])
            cur = sorted(src[0])
            if len(exp) > 1:
                stats['nontrivial'] += 1
            variables = dict(base_vars)
            variables['S'] = [node_of_rank[r] for r in reversed(cur)]
            edge_ok = True
            texts = expr_for(pre, action, args)
            for ti, (text, versions) in enumerate(texts):
                if ti > 0 and len(versions) > 1:      # alternative spellings: one rotating version
                    versions = (versions[(stats['transitions'] + ti) % len(versions)],)
                for v in versions:
                    obs = project(ops_eval(v, text, root_node, variables, frag))
                    stats['evaluations'] += 1
                    if obs != exp:
                        edge_ok = False
                        record(dict(part='ops', action=action, op=args[0], operand=args[1] if action == 'SetOp' else None,
                                    spelling=('chain' if ti == 0 else 'var' if ti == 1 else 'alt'),
                                    sym=('|' if ' | ' in text else None),
                                    parser=v, variant=cfg['variant'], rootarg=cfg['rootarg'], fragment=cfg['fragment'],
                                    outcome=outcome(exp, obs), has_doc=(kind[1] == 'd')),
                               dict(kind='ops', cfg=cfg, tree=tree, dseq=dseq, opnds=opnds, text=text, parser=v, cur=cur,
                                    xml=built.xml()), exp, str(obs))
            if edge_ok and dst not in prefix:
                prefix[dst] = texts[0][0]
                queue.append(dst)
                if len(samples) < 1 and len(exp) > 2 and prefix[dst].count('$') > 2:
                    samples.append(dict(xml=built.xml(), cfg=cfg, expression=prefix[dst], expected_ranks=exp,
                                        ranks=[list(x) for x in exp_desc]))
    stats['unreached'] = len([s for s in states if s not in prefix and states[s][1] == '-'])
    return stats, list(fails.values()), samples


# ---------------------------------------------------------------------------------------
# binding B: larger random real trees, judged by TLC (TraceTreeBuild)

def random_input(rnd: random.Random, lo: int, hi: int) -> tuple[dict, dict]:
    """Test-input generation only (no expectation is computed here)."""
    n = rnd.randint(lo, hi)
    variant = rnd.choice(['etree', 'lxml'])
    par, knd = [0], ['e']
    stack = [1]                      # ancestors-or-self of the previous item that are elements
    for i in range(2, n + 1):
        # preorder: the parent is the previous item (if an element) or one of its ancestors
        cands = list(stack)
        p = rnd.choice(cands[-3:]) if rnd.random() < 0.8 else rnd.choice(cands)
        par.append(p)
        k = rnd.choices(['e', 'c', 'p'], [6, 2, 1])[0]
        knd.append(k)
        stack = stack[:stack.index(p) + 1]
        if k == 'e':
            stack.append(i)
    # an element counts as parent candidate only if it is an element: guaranteed by construction
    txt = [knd[i] == 'e' and rnd.random() < 0.5 for i in range(n)]
    tl = [i > 0 and rnd.random() < 0.5 for i in range(n)]
    etx = [txt[i] and rnd.random() < 0.2 for i in range(n)]       # '' chunks
    etl = [tl[i] and rnd.random() < 0.2 for i in range(n)]
    nat = [rnd.choice([0, 0, 1, 2]) if knd[i] == 'e' else 0 for i in range(n)]
    if variant == 'lxml':
        decl = [sorted(rnd.choice([(), (), ('p',), ('q',), ('p', 'q'), ('',), ('', 'p')])) if knd[i] == 'e' else []
                for i in range(n)]
        pre = [rnd.choice('cp') for _ in range(rnd.choice([0, 0, 1, 2]))]
        post = [rnd.choice('cp') for _ in range(rnd.choice([0, 0, 1, 2]))]
        nsarg = rnd.choice([[], ['p']])
    else:
        decl = [[] for _ in range(n)]
        pre, post = [], []
        nsarg = rnd.choice([[], ['p'], ['xml'], ['p', 'xml'], ['', 'p', 'q'], ['p', 'q', 'xml']])
    cfg = dict(variant=variant, rootarg=rnd.choice(['elem', 'tree']), fragment=rnd.choice(['none', 'none', 'true', 'false']),
               nsarg=nsarg)
    tree = dict(n=n, par=par, knd=knd, txt=txt, tl=tl, etx=etx, etl=etl, nat=nat, decl=decl, pre=pre, post=post)
    return cfg, tree


def record_events(built: Built) -> list:
    """(kind, position, parent position) of every node, in iter() order; the namespace nodes / attributes
    of one element sorted by position (their relative order is implementation-dependent)."""
    from elementpath import get_node_tree
    root_node = get_node_tree(built.arg, built.namespaces, fragment=built.fragment)
    out: list = []
    block: list = []
    last_kind = None
    for nd in root_node.iter():
        k = KIND.get(nd.node_kind, '?')
        ev = [k, nd.position, -1 if nd.parent is None else nd.parent.position]
        if k in ('ns', 'a'):
            if last_kind != k:
                out += sorted(block, key=lambda e: e[1])
                block = []
            block.append(ev)
        else:
            out += sorted(block, key=lambda e: e[1])
            block = []
            out.append(ev)
        last_kind = k
    out += sorted(block, key=lambda e: e[1])
    return out


def trace_worker(job):
    core.setup_repo_path()
    tid, cfg, tree = job
    built = Built(cfg, tree)
    try:
        ev = record_events(built)
    except Exception as ex:   # noqa: BLE001
        return dict(id=tid, cfg=cfg, tree=tree, events=[['exception', 0, 0]], error=repr(ex), xml=built.xml())
    return dict(id=tid, cfg=cfg, tree=tree, events=ev, xml=built.xml())


def validate_traces(recs: list, wd: str, chk=None) -> dict:
    """Have TLC (TraceTreeBuild) judge recorded traces; returns id -> verdict."""
    os.makedirs(wd, exist_ok=True)
    verdicts: dict = {}
    batches = core.chunked(recs, max(1, (len(recs) + 299) // 300))
    for bi, batch in enumerate(batches):
        path = os.path.join(wd, f'traces{bi}.json')
        with open(path, 'w') as f:
            json.dump([{k: r[k] for k in ('id', 'cfg', 'tree', 'events')} for r in batch], f)
        cfgtxt = tla.cfg_text(dict(MaxItems=1, ItemKinds={"e"}, TextOpts={True}, TailOpts={True}, EmptyOpts={False}, AttrCounts={0},
                                   DeclOpts={E}, Variants={"etree"}, RootArgs={"elem"}, Fragments={"none"}, NsArgs={E},
                                   MaxSibs=0, Emit=False),
                              spec='TSpec', invariants=['TypeOK', 'PopSafe', 'GapSafe', 'Refinement'])
        r = tla.require_ok(tla.run_tlc('TraceTreeBuild', cfgtxt, wd, env={'C02_TRACES': path}, workers=min(8, PROCS)),
                           f'TraceTreeBuild batch {bi}')
        if chk is not None:
            chk.model(f'TraceTreeBuild/batch{bi}', r)
            chk.add('transitions', r.generated)
        for line in r.output.splitlines():
            if line.startswith('"<<\\"c02t'):
                v = tla.parse_value(line.strip()[1:-1].replace('\\"', '"'))
                verdicts[v[1]] = dict(exact=v[2], order=v[3], first_diff=v[4], n_events=v[5])
    return verdicts


def run_traces(chk: core.Check) -> None:
    par = TRACES[chk.tier]
    rnd = random.Random(chk.seed * 7919 + 2)
    jobs = []
    for t in range(1, par['count'] + 1):
        cfg, tree = random_input(rnd, par['lo'], par['hi'])
        jobs.append((t, cfg, tree))
    recs = core.pool_map(trace_worker, jobs, procs=min(8, PROCS))
    # binding self-test: two corrupted copies of real recordings must be rejected by TLC
    good = [r for r in recs if 'error' not in r and len(r['events']) > 6]
    corrupt = []
    if len(good) >= 2:
        a = json.loads(json.dumps(good[0]))
        a['id'] = 900001
        a['events'][4][1] = a['events'][3][1]          # a position collides with its predecessor
        b = json.loads(json.dumps(good[1]))
        b['id'] = 900002
        del b['events'][len(b['events']) // 2]         # a node is missing
        corrupt = [a, b]
    verdicts = validate_traces(recs + corrupt, os.path.join(chk.scratch, 'traces'), chk)
    byid = {r['id']: r for r in recs + corrupt}
    missing = [i for i in byid if i not in verdicts]
    if missing:
        raise tla.MachineryError(f'TraceTreeBuild printed no verdict for traces {missing[:5]}')
    for c in corrupt:
        if verdicts[c['id']]['order'] or verdicts[c['id']]['exact']:
            raise tla.MachineryError(f'binding self-test: corrupted trace {c["id"]} was accepted by TraceTreeBuild')
    chk.coverage['trace_selftest_rejected'] = len(corrupt)
    n_events = 0
    drift = 0
    for r in recs:
        v = verdicts[r['id']]
        n_events += v['n_events']
        chk.add('traces_validated_against_impl', 1)
        chk.add('evaluations', 1)
        chk.add('distinct_nontrivial', 1)
        if 'error' in r:
            chk.fail(dict(part='trace', check='exception', variant=r['cfg']['variant'], rootarg=r['cfg']['rootarg'],
                          fragment=r['cfg']['fragment']), dict(kind='trace', cfg=r['cfg'], tree=r['tree'], xml=r['xml']),
                     'a node tree', r['error'], what=r['xml'][:200])
        elif not v['order']:
            k = v['first_diff']
            # API-level witness: the same input through the binding-A comparison gives the precise class
            chk.fail(dict(part='trace', check='not_document_ordered_image', variant=r['cfg']['variant'],
                          rootarg=r['cfg']['rootarg'], fragment=r['cfg']['fragment'],
                          event_kind=(r['events'][k - 1][0] if 0 < k <= len(r['events']) else 'end')),
                     dict(kind='trace', cfg=r['cfg'], tree=r['tree'], xml=r['xml'], events=r['events']),
                     f'events accepted by TraceTreeBuild!OrderOK (first difference to the step machine at event {k})',
                     r['events'][max(0, k - 3):k + 2], what=r['xml'][:200])
        elif not v['exact']:
            drift += 1
    if drift:
        chk.note(f'{drift} recorded trees are document-ordered images but their position numbers differ from the '
                 f'TreeBuild transcription (diagnostic only)')
    chk.coverage['trace_events'] = n_events
    chk.coverage['trace_items_range'] = [par['lo'], par['hi']]
    if recs:
        r = recs[0]
        chk.sample(dict(trace_id=r['id'], cfg=r['cfg'], xml=r['xml'][:300], events=r['events'][:12], verdict=verdicts[r['id']]))


# ---------------------------------------------------------------------------------------

def shards(name: str, consts: dict):
    """Thorough configurations are run one variant at a time (bounded TLC output per run)."""
    if len(consts['Variants']) > 1 and consts['MaxItems'] >= 3:
        for v in sorted(consts['Variants']):
            yield f'{name}-{v}', dict(consts, Variants={v})
    else:
        yield name, consts


TB_ACTIONS = ['Start', 'PreSib', 'MkRoot', 'RootText', 'NextChild', 'ChildText', 'Descend', 'ChildTail', 'Exhausted',
              'Pop', 'Finish', 'PostSib', 'Report']


def run_treebuild(chk: core.Check) -> None:
    n_oracle = 0
    fired = {a: 0 for a in TB_ACTIONS}
    todo = [sh for name, consts in TB_CONFIGS[chk.tier]
            for sh in (shards(name, consts) if chk.tier == 'thorough' else [(name, consts)])]
    for name, consts in todo:
        wd = os.path.join(chk.scratch, 'tb_' + name)
        c = dict(consts, Emit=True)
        cfg = tla.cfg_text(c, spec='Spec', invariants=['TypeOK', 'PopSafe', 'GapSafe', 'Refinement', 'DefOK'])
        r = tla.require_ok(tla.run_tlc('TreeBuild', cfg, wd, workers=min(12, PROCS)), f'TreeBuild/{name}')
        chk.model(f'TreeBuild/{name}', r)
        m = re.search(r'Finished computing initial states: (\d+) distinct state', r.output)
        n_init = int(m.group(1)) if m else -1
        chk.add('transitions', r.generated)
        t0 = time.time()
        lines = [ln for ln in r.output.splitlines() if ln.startswith('"<<\\"c02\\"')]
        if not lines:
            raise tla.MachineryError(f'TreeBuild/{name}: no terminal vector printed (vacuous)')
        results = core.pool_map(tree_worker, core.chunked(lines, 64), procs=PROCS)
        nvec = 0
        for stats, fails, notes, odis, n_odis, samples in results:
            nvec += stats['vectors']
            chk.add('evaluations', stats['evaluations'])
            chk.add('traces_validated_against_impl', stats['vectors'])
            chk.add('distinct_nontrivial', stats['nontrivial'])
            chk.add('second_oracle_evaluations', stats['lx'])
            n_oracle += n_odis
            for d in odis:
                chk.coverage.setdefault('oracle_disagreements', []).append(d)
            for s in samples[:1]:
                chk.sample(s, cap=3)
            for nt in notes:
                if nt not in chk.notes:
                    chk.note(nt)
            for feat, cnt, case, exp, obs in fails:
                report(chk, feat, cnt, case, exp, obs)
        if nvec != len(lines) or nvec != n_init:
            # every behaviour must run to Report: one terminal vector per initial state, else the model is vacuous
            raise tla.MachineryError(f'TreeBuild/{name}: {n_init} initial states, {len(lines)} vectors printed, {nvec} parsed')
        print(f'  TreeBuild/{name}: states={r.distinct} behaviours={nvec} tlc={r.wall_s:.1f}s replay={time.time()-t0:.1f}s',
              flush=True)
    # anti-vacuity: every action of the step machine fires (coverage run on a small configuration with all
    # features; the big runs are covered by "one terminal vector per initial state" above)
    mini = dict(MaxItems=3, ItemKinds={"e", "c"}, TextOpts={True}, TailOpts={True}, EmptyOpts={False}, AttrCounts={1},
                DeclOpts={fs({"p"})},
                Variants={"etree", "lxml"}, RootArgs={"elem", "tree"}, Fragments={"none", "false"}, NsArgs={E}, MaxSibs=1,
                Emit=False)
    r = tla.require_ok(tla.run_tlc('TreeBuild', tla.cfg_text(mini, spec='Spec', invariants=['TypeOK']),
                                   os.path.join(chk.scratch, 'tb_cov'), workers=min(4, PROCS), coverage=True),
                       'TreeBuild/coverage')
    chk.model('TreeBuild/coverage', r)
    for a in TB_ACTIONS:
        fired[a] += r.coverage.get(a, 0)
    dead = [a for a, c in fired.items() if c == 0]
    if dead:
        raise tla.MachineryError(f'TreeBuild actions never fired in any configuration (vacuous): {dead}')
    chk.coverage['treebuild_action_firings'] = fired
    if n_oracle:
        raise tla.MachineryError(f'specification and libxml2 disagree on {n_oracle} points, e.g. '
                                 f'{chk.coverage["oracle_disagreements"][:2]}')


def report(chk, feat, cnt, case, exp, obs):
    chk.fail(feat, case, exp, obs, what=f'{case.get("check") or case.get("text")} on {case.get("xml")}')
    if cnt > 1:
        for idx, kf in enumerate(chk.known):
            if core.match_pattern(kf['fingerprint'], core.jsonable(feat)):
                chk.known_hits[idx] = chk.known_hits.get(idx, 0) + cnt - 1
                break


def run_nodeops(chk: core.Check) -> None:
    unreached = skipped = 0
    for name, consts in NO_CONFIGS[chk.tier]:
        wd = os.path.join(chk.scratch, 'no_' + name)
        dot = os.path.join(wd, 'graph.dot')
        os.makedirs(wd, exist_ok=True)
        cfg = tla.cfg_text(consts, spec='Spec', invariants=['TypeOK', 'Laws'])
        r = tla.require_ok(tla.run_tlc('NodeOps', cfg, wd, dump_dot=dot, workers=min(12, PROCS)), f'NodeOps/{name}')
        chk.model(f'NodeOps/{name}', r)
        t0 = time.time()
        g = tla.load_dot(dot)
        os.remove(dot)
        t_load = time.time() - t0
        ikeys = ('variant', 'rootarg', 'fragment', 'nsarg', 'n', 'par', 'knd', 'txt', 'tl', 'etx', 'etl', 'nat', 'decl',
                 'pre', 'post')
        trees: dict = {}
        tree_of = {}
        for sid, st in g.states.items():
            key = tuple(st[k] for k in ikeys)
            tree_of[sid] = key
            ent = trees.get(key)
            if ent is None:
                ent = trees[key] = [plain({k: st[k] for k in ikeys}), plain(st['dseq']), plain(st['dpar']),
                                    plain(st['opnds']), {}, None, {}]
            ent[4][sid] = (st['cur'], st['res'], st['cmp'])
        for sid in g.init:
            trees[tree_of[sid]][5] = sid
        for s, d, a, args in g.edges:
            trees[tree_of[s]][6].setdefault(s, []).append((d, a, args))
        n_edges = len(g.edges)
        seen_ops = {(a, args[0] if args else None) for _, _, a, args in g.edges}
        want = {('SetOp', o) for o in ('union', 'intersect', 'except', 'rexcept')} | \
               {('Fn', f) for f in ('innermost', 'outermost', 'root')} | \
               {('CmpAny', None), ('PathAny', None), ('PathCmpAny', None), ('RootWalk', None), ('RawAny', None)}
        # the unparenthesised chains must DISCRIMINATE the groupings for every pair of operators that is not associative
        disc2 = {(args[0], args[1]) for _, _, a, args in g.edges if a == 'Chain2' and args[5]}
        need2 = {(x, y) for x in consts['ChainOps'] for y in consts['ChainOps']} - \
            {('union', 'union'), ('intersect', 'intersect'), ('intersect', 'except')}   # (A n B) \\ C = A n (B \\ C): associative
        if need2 - disc2 or not any(a == 'Chain3' and args[5] for _, _, a, args in g.edges):
            raise tla.MachineryError(f'NodeOps/{name}: no discriminating chain for {sorted(need2 - disc2)} (vacuous)')
        if want - seen_ops:
            raise tla.MachineryError(f'NodeOps/{name}: operators never applied (vacuous): {sorted(want - seen_ops, key=str)}')
        jobs = [tuple(v) for v in trees.values()]
        del g
        results = core.pool_map(ops_tree_worker, jobs, procs=PROCS)
        for stats, fails, samples in results:
            chk.add('transitions', stats['transitions'])
            chk.add('evaluations', stats['evaluations'])
            chk.add('traces_validated_against_impl', stats['transitions'])
            chk.add('distinct_nontrivial', stats['nontrivial'])
            unreached += stats.get('unreached', 0)
            skipped += stats.get('skipped_trees', 0)
            for s in samples[:1]:
                chk.sample(s, cap=6)
            for feat, cnt, case, exp, obs in fails:
                report(chk, feat, cnt, case, exp, obs)
        print(f'  NodeOps/{name}: trees={len(trees)} states={r.distinct} edges={n_edges} tlc={r.wall_s:.1f}s '
              f'load={t_load:.1f}s replay={time.time()-t0:.1f}s', flush=True)
    chk.coverage['unreached_states'] = unreached
    chk.coverage['nodeops_trees_skipped_not_faithful'] = skipped


def run(chk: core.Check) -> None:
    core.setup_repo_path()
    chk.assumptions += [
        'spec/XTree.tla (definitional XDM image) is the oracle; TLC proves DefLaws on it and the refinement of the '
        'transcribed builder algorithm (TreeBuild) to it on every input of the bounded universe; libxml2 must agree '
        'with it on document order, string values and attribute/namespace counts of every lxml input (else exit 2)',
        'exhaustive universe bounded as listed in coverage.configs; beyond it only the seeded random trees of binding B',
        'real nodes are recognised by object identity (elements) and unique content literals (text, comment, PI, attribute)',
        'implementation-defined and excluded: xmlns="" undeclaration, relative order of the '
        'namespace nodes / attributes of one element (compared as sets inside the element block)',
        'exact position numbers are diagnostic; decisive is uniqueness + strict increase in definitional document order',
    ]
    chk.coverage['configs'] = [dict(module='TreeBuild', name=n, **core.jsonable(c)) for n, c in TB_CONFIGS[chk.tier]] + \
                              [dict(module='NodeOps', name=n, **core.jsonable(c)) for n, c in NO_CONFIGS[chk.tier]] + \
                              [dict(module='TraceTreeBuild', **TRACES[chk.tier])]
    run_treebuild(chk)
    run_nodeops(chk)
    run_traces(chk)
    chk.coverage['exhaustive'] = True
    chk.coverage['rule'] = (
        'TreeBuild: one case per behaviour (= per input tree x call configuration of the bounded universe), each built '
        'through 3 entry points; non-trivial = more than one item or more than 3 XDM nodes. NodeOps: one case per '
        'transition of the dumped graph; non-trivial = result has more than one node, or a comparison of two '
        'different nodes. TraceTreeBuild: one case per seeded random tree of 10-60 items.')


# ---------------------------------------------------------------------------------------

def replay(rec: dict) -> int:
    core.setup_repo_path()
    case = rec['case']
    print('xml      :', case.get('xml'))
    print('cfg      :', case.get('cfg'))
    if case['kind'] == 'tree':
        built = Built(case['cfg'], case['tree'])
        fn = dict(built.entries())[case['entry']]
        try:
            fl, _, _ = judge_tree(case['vec'], built, case['entry'], fn())
        except Exception as ex:   # noqa: BLE001
            fl = [('exception', {}, '', repr(ex))]
        bad = [f for f in fl if f[0] == case['check']]
        print('check    :', case['check'])
        print('expected :', rec['expected'])
        print('observed :', bad[0][3] if bad else 'agrees now')
        if bad:
            print('VIOLATION property=C02 replay=(replayed)')
            return 1
        return 0
    if case['kind'] == 'ops' and case.get('sub') == 'raw':
        from elementpath import XPathContext
        built = Built(case['cfg'], case['tree'], samevals=True)
        exp_desc = [tuple(x) for x in case['dseq']]
        M = len(exp_desc)

        def raw_obj(r):
            k, src, sub = exp_desc[r - 1]
            return built.doc if k == 'd' else built.sibs[sub] if k in ('sc', 'sp') else built.objs[src]
        raw = raw_obj(case['x'])
        root_node = XPathContext(built.arg, built.namespaces, fragment=built.fragment).root
        pr = Projection(built, root_node)
        rank_of_desc = {x: j for j, x in enumerate(exp_desc, 1)}
        node_of_rank = {rank_of_desc[pr.desc[j]]: nd for j, nd in enumerate(pr.nodes) if pr.desc[j] in rank_of_desc}
        raw_ranks = [r for r in range(1, M + 1) if exp_desc[r - 1][0] in ('e', 'c', 'p', 'sc', 'sp')
                     or (exp_desc[r - 1][0] == 'd' and case['cfg']['rootarg'] == 'tree')]
        variables = {'v': raw, 'n': node_of_rank[case['x']], 'last': node_of_rank[M],
                     'all': [node_of_rank[r] for r in range(M, 0, -1)], 'vs': [raw_obj(r) for r in reversed(raw_ranks)]}
        item = raw if case['as_item'] else None
        tok = get_token(case['parser'], case['text'])
        try:
            if case['how'] == 'raw_root':
                ctx = XPathContext(built.arg, built.namespaces, fragment=built.fragment, item=item, variables={'v': raw})
            else:
                ctx = XPathContext(root_node, fragment=built.fragment, item=item, variables=variables)
            res = list(tok.select(ctx))
            p2 = Projection(built, ctx.root)
            rk = {id(nd): rank_of_desc.get(p2.desc[j], ('?', str(p2.desc[j]))) for j, nd in enumerate(p2.nodes)}
            obs = [x if isinstance(x, bool) else rk.get(id(x), ('?', repr(x)[:40])) for x in res]
        except Exception as ex:   # noqa: BLE001
            obs = ('err', type(ex).__name__, getattr(ex, 'code', None))
        print('expr     :', case['text'], f"  raw object of rank {case['x']} {exp_desc[case['x'] - 1]} as",
              'context item' if case['as_item'] else '$v', ' root =', case['how'], ' parser', case['parser'])
        print('expected :', rec['expected'])
        print('observed :', obs)
        if list(obs) != list(rec['expected']):
            print('VIOLATION property=C02 replay=(replayed)')
            return 1
        return 0
    if case['kind'] == 'ops' and case.get('sub') in ('path', 'rootwalk', 'rootwalk_ctx'):
        from elementpath import XPathContext
        built = Built(case['cfg'], case['tree'], samevals=True)
        exp_desc = [tuple(x) for x in case['dseq']]
        rank_of_desc = {x: j for j, x in enumerate(exp_desc, 1)}
        v = case['parser']

        def fresh(text, item=None, variables=None, ctx=None):
            tok = get_token(v, text)
            if isinstance(tok, Exception):
                return ('err', type(tok).__name__, getattr(tok, 'code', None)), None
            try:
                if ctx is None:
                    ctx = XPathContext(built.arg, built.namespaces, fragment=built.fragment, item=item, variables=variables)
                res = list(tok.select(ctx))
            except Exception as ex:   # noqa: BLE001
                return ('err', type(ex).__name__, getattr(ex, 'code', None)), ctx
            if res and all(isinstance(x, bool) for x in res):
                return res, ctx
            p2 = Projection(built, ctx.root)
            rk = {id(nd): rank_of_desc.get(p2.desc[j], ('?', str(p2.desc[j]))) for j, nd in enumerate(p2.nodes)}
            return [rk.get(id(x), ('?', repr(x)[:40])) for x in res], ctx

        def obj(r):
            return built.objs[exp_desc[r - 1][1]]
        if case['sub'] == 'path':
            if case['how'] == 'item':
                obs, _ = fresh(case['text'], item=obj(case['focus']))
            else:
                obs, _ = fresh(case['text'], variables={'f': obj(case['focus'])})
            print('expr     :', case['text'], f"  focus = rank {case['focus']} ({case['how']})  parser", v)
        elif case['sub'] == 'rootwalk':
            obs, _ = fresh(case['text'], variables={'r': built.root})
            print('expr     :', case['text'], ' parser', v)
        else:
            elem_ranks = [r for r in range(1, len(exp_desc) + 1) if exp_desc[r - 1][0] == 'e']
            obs, ctx = [], None
            for r in elem_ranks:
                for t in (f'root($e{r})', f'$e{r}/@*/root()', f'$e{r}/namespace::*/root()'):
                    o, c2 = fresh(t, variables={f'e{q}': obj(q) for q in elem_ranks}, ctx=ctx)
                    ctx = ctx or c2
                    if isinstance(o, tuple):
                        obs = o
                        break
                    obs += o
                if isinstance(obs, tuple):
                    break
            print('sequence : root($eK), $eK/@*/root(), $eK/namespace::*/root() for every element, ONE context; parser', v)
        print('expected :', rec['expected'])
        print('observed :', obs)
        if list(obs) != list(rec['expected']):
            print('VIOLATION property=C02 replay=(replayed)')
            return 1
        return 0
    if case['kind'] == 'ops':
        import elementpath
        from elementpath import XPathContext
        built = Built(case['cfg'], case['tree'], samevals=True)
        root_node = XPathContext(built.arg, built.namespaces, fragment=built.fragment).root
        pr = Projection(built, root_node)
        exp_desc = [tuple(x) for x in case['dseq']]
        node_of_rank = {exp_desc.index(pr.desc[j]) + 1: nd for j, nd in enumerate(pr.nodes) if pr.desc[j] in exp_desc}
        rank_of = {id(nd): r for r, nd in node_of_rank.items()}
        root_elem = exp_desc.index(('e', 1, 0)) + 1
        variables = {nm: [node_of_rank[r] for r in reversed(sorted(v))] for nm, v in case['opnds'].items()}
        variables['r'] = node_of_rank[root_elem]
        if 'cur' in case:
            variables['S'] = [node_of_rank[r] for r in reversed(case['cur'])]
        if 'a' in case:
            variables['a'], variables['b'] = node_of_rank[case['a']], node_of_rank[case['b']]
        if case['parser'] == 'select()':
            try:
                obs = elementpath.select(root_node, case['text'], fragment=built.fragment, variables=variables)
            except Exception as ex:   # noqa: BLE001
                obs = ('err', type(ex).__name__, getattr(ex, 'code', None))
            agree = obs is rec['expected']
        else:
            res = ops_eval(case['parser'], case['text'], root_node, variables, built.fragment)
            obs = res if isinstance(res, tuple) else [rank_of.get(id(x), x) if not isinstance(x, bool) else x for x in res]
            agree = obs == rec['expected']
        print('expr     :', case['text'], ' parser', case['parser'])
        print('expected :', rec['expected'])
        print('observed :', obs)
        if not agree:
            print('VIOLATION property=C02 replay=(replayed)')
            return 1
        return 0
    if case['kind'] == 'trace':
        built = Built(case['cfg'], case['tree'])
        try:
            ev = record_events(built)
        except Exception as ex:   # noqa: BLE001
            print('observed :', repr(ex))
            print('VIOLATION property=C02 replay=(replayed)')
            return 1
        import shutil
        wd = os.path.join(core.VERIF, '.scratch', f'C02-replay-{os.getpid()}')
        try:
            v = validate_traces([dict(id=1, cfg=case['cfg'], tree=case['tree'], events=ev)], wd)[1]
        finally:
            shutil.rmtree(wd, ignore_errors=True)
        print('TraceTreeBuild verdict on the events recorded now:', v)
        if not v['order']:
            print('VIOLATION property=C02 replay=(replayed)')
            return 1
        return 0
    raise tla.MachineryError(f'unknown replay kind {case.get("kind")}')
