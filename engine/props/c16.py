"""C16 -- function items are first-class values: closures, partial application, HOFs.

Specs: spec/FnEval.tla (expression language; DEFINITIONAL environment-passing semantics
Eval/Apply; definitional expansions of for-each, filter, fold-left, fold-right, for-each-pair,
apply, sort; implementation-shaped evaluator EvalI), spec/Closures.tla (HISTORY machine:
Create(i) / EndScope / CallLater(h, args) / Partial(h, mask) / NamedRef(f, arity); log = results
under the definitional semantics = the oracle; ilog = results under EvalI = the design of the CURRENT
code, only used to classify a failure and to let TLC exhibit the remaining design defect as a refuted
invariant - the token-sharing defect until /repo e070bf1, now the static partial application), spec/HOF.tla
(value-state machine: accumulator sequence, one action per higher-order function; laws as
invariants; sibling machines SpecMixed / SpecTies / SpecColl / SpecSpecial for fn:sort: Python-equal items,
tying keys, collations, and numbers of different types together with -INF, INF, NaN of xs:double / xs:float).
Closures templates also cover a DECLARED RESULT TYPE of the inline function (rtd, rtds, rtany: every call form
converts the result) and focus-dependent function items obtained by fn:function-lookup / made by a path step.

Binding A, Closures: every LEAF of the dumped forest is one complete program.  It is rendered
(i) as ONE XPath program  let <outer>, $fs := (<scope>) return (call1, "|", call2, ...)  and run
with XPath30Parser and XPath31Parser, (ii) through the Python API: the creating expression is
select()ed, the returned XPathFunction objects are called in the TLC-chosen order with Python
arguments (partial applications via select('$f(7, ?)', variables={'f': obj}), named references via
parser.get_function(name, arity)), and (iii) every distinct call also as the equivalent DIRECT
call inside the creating scope.  Binding A, HOF: every edge acc --Hof(f, ..)--> acc' is rendered as
one expression (function argument inline, bound to a variable, and through
parser.get_function(hof, n)(python sequence, function object)).

All rendering is a dumb 1:1 abstract syntax -> text table (render()); all expected values are
read from TLC's graph / printed tables.
"""
from __future__ import annotations

import os
import re
import signal
from decimal import Decimal

from .. import core, tla

SEP = '|'

TIERS = {
    'quick': dict(
        closures=[
            ('main', dict(
                Templates={"for0", "for1", "forseq", "let1", "for2", "nest", "nestseq", "nestx", "nestxr",
                           "rec", "recr", "fact1", "pvar", "pstat", "ref1", "shadow"},
                MaxN=3, MaxEvents=3, MaxMakers=1, PartialIn={"for2", "for1", "ref1"}, RefIn={"for1"},
                TwoHoles=False)),
            # two partial applications of function items made by one function expression
            ('partials', dict(
                Templates={"for2"}, MaxN=2, MaxEvents=3, MaxMakers=2, PartialIn={"for2"}, RefIn={"none"},
                TwoHoles=True)),
            # a named reference, a partial application of it (one or two placeholders), calls
            ('refs', dict(
                Templates={"for0"}, MaxN=1, MaxEvents=3, MaxMakers=2, PartialIn={"for0"}, RefIn={"for0"},
                TwoHoles=True)),
            # inline functions whose parameters have DIFFERENT declared types, partial applications with a
            # placeholder that is not the first argument
            # ... and inline functions with a DECLARED RESULT TYPE (rtd, rtds, rtany): the result of every call form is converted
            ('typed', dict(
                Templates={"typ2", "typd", "typ3", "rtd", "rtds", "rtany"}, MaxN=2, MaxEvents=2, MaxMakers=1,
                PartialIn={"typ2", "typd", "typ3", "rtd", "rtds", "rtany"}, RefIn={"none"}, TwoHoles=True)),
            # NESTED inline functions / constructors in the body read a variable bound two scopes up; the outer
            # function item is called where that variable is unbound (or bound differently)
            ('nested', dict(
                Templates={"nest2", "nestshadow", "nest3", "nestlet", "nesthof", "curry",
                           "bodyarr", "bodymap", "bodysome", "bodyfor", "bodypart"},
                MaxN=2, MaxEvents=2, MaxMakers=0, PartialIn={"none"}, RefIn={"none"}, TwoHoles=False)),
            # QName-valued variable names: prefixed parameters shadowing / aliasing outer variables
            ('qnames', dict(
                Templates={"qshadow", "qother", "qeqparam", "qalias", "qeqref", "qparamalias"},
                MaxN=2, MaxEvents=2, MaxMakers=0, PartialIn={"none"}, RefIn={"none"}, TwoHoles=False)),
            # named references to focus-dependent functions made by  source ! name#0  and called later; the same items
            # obtained by fn:function-lookup (lk*), and both made by a path step  /r/* / name#0  (*st*)
            ('focus', dict(
                Templates={"refpos", "refstr", "refslen", "refnlen", "refname", "refstname",
                           "lkpos", "lkstr", "lkslen", "lknlen", "lkname", "lkstpos", "lkstname"},
                MaxN=3, MaxEvents=3, MaxMakers=0, PartialIn={"none"}, RefIn={"none"}, TwoHoles=False)),
        ],
        hof=[('d2', dict(MaxDepth=2, MaxLen=3, UniverseName='u4', Big=True))],
        mixed=[('len3', dict(MaxDepth=2, MaxLen=3, UniverseName='u4', Big=True))],
        special=[('len3', dict(MaxDepth=2, MaxLen=3, UniverseName='u4', Big=True))],
        coll=[('len3', dict(MaxDepth=2, MaxLen=3, UniverseName='u4', Big=True))],
    ),
    'thorough': dict(
        closures=[
            ('main', dict(
                Templates={"for0", "for1", "forseq", "let1", "nest", "nestseq", "nestx", "nestxr",
                           "rec", "recr", "fact1", "pvar", "pstat", "shadow"},
                MaxN=3, MaxEvents=4, MaxMakers=1, PartialIn={"for1"}, RefIn={"for0"}, TwoHoles=False)),
            ('makers', dict(
                Templates={"for2", "ref1", "for1"},
                MaxN=2, MaxEvents=4, MaxMakers=2, PartialIn={"for2", "ref1", "for1"}, RefIn={"for1", "ref1"},
                TwoHoles=True)),
            # a named reference, two partial applications of it, one call
            ('refs', dict(
                Templates={"for0"}, MaxN=1, MaxEvents=4, MaxMakers=3, PartialIn={"for0"}, RefIn={"for0"},
                TwoHoles=False)),
            # ... with two placeholders (one partial application: a shared argument list with unfilled
            # placeholders computes garbage the implementation-shaped model does not predict)
            ('refs2', dict(
                Templates={"for0"}, MaxN=1, MaxEvents=4, MaxMakers=2, PartialIn={"for0"}, RefIn={"for0"},
                TwoHoles=True)),
            ('typed', dict(
                Templates={"typ2", "typd", "typ3", "rtd", "rtds", "rtany"}, MaxN=2, MaxEvents=3, MaxMakers=1,
                PartialIn={"typ2", "typd", "typ3", "rtd", "rtds", "rtany"}, RefIn={"none"}, TwoHoles=True)),
            # NESTED inline functions / constructors in the body read a variable bound two scopes up; the outer
            # function item is called where that variable is unbound (or bound differently)
            ('nested', dict(
                Templates={"nest2", "nestshadow", "nest3", "nestlet", "nesthof", "curry",
                           "bodyarr", "bodymap", "bodysome", "bodyfor", "bodypart"},
                MaxN=2, MaxEvents=3, MaxMakers=0, PartialIn={"none"}, RefIn={"none"}, TwoHoles=False)),
            # QName-valued variable names: prefixed parameters shadowing / aliasing outer variables
            ('qnames', dict(
                Templates={"qshadow", "qother", "qeqparam", "qalias", "qeqref", "qparamalias"},
                MaxN=2, MaxEvents=2, MaxMakers=0, PartialIn={"none"}, RefIn={"none"}, TwoHoles=False)),
            ('focus', dict(
                Templates={"refpos", "refstr", "refslen", "refnlen", "refname", "refstname",
                           "lkpos", "lkstr", "lkslen", "lknlen", "lkname", "lkstpos", "lkstname"},
                MaxN=3, MaxEvents=4, MaxMakers=0, PartialIn={"none"}, RefIn={"none"}, TwoHoles=False)),
        ],
        hof=[('d3', dict(MaxDepth=3, MaxLen=3, UniverseName='u4', Big=True))],
        mixed=[('len4', dict(MaxDepth=2, MaxLen=4, UniverseName='u4', Big=True))],
        # 11 items (also 7e0 and the xs:float NaN) x 5 keys (also integers -> NaN)
        special=[('len3x', dict(MaxDepth=2, MaxLen=3, UniverseName='u6', Big=True))],
        coll=[('len4', dict(MaxDepth=2, MaxLen=4, UniverseName='u4', Big=True))],
    ),
}


# ---------------------------------------------------------------------------------------
# dumb rendering: abstract syntax (FnEval.tla) -> XPath text

ARGS_MARK = '__ARGS__'


def render(e, args_text: str | None = None) -> str:
    k = e['k']
    if k == 'lit':
        return str(e['v']) if e['v'] >= 0 else f'({e["v"]})'
    if k == 'lits':
        return '(' + ', '.join(str(x) if x >= 0 else f'({x})' for x in e['ns']) + ')'
    if k == 'empty':
        return '()'
    if k == 'var':
        return '$' + e['n']
    if k == 'hole':
        return '?'
    if k == 'bin':
        return f'({render(e["a"], args_text)} {e["op"]} {render(e["b"], args_text)})'
    if k == 'seq':
        return f'({render(e["a"], args_text)}, {render(e["b"], args_text)})'
    if k == 'if':
        return (f'(if ({render(e["c"], args_text)}) then {render(e["a"], args_text)} '
                f'else {render(e["b"], args_text)})')
    if k == 'str':
        return '"' + e['v'] + '"'
    if k == 'dlit':
        return f'{e["v"]}e0'
    if k == 'instof':
        return f'({render(e["e"], args_text)} instance of {e["t"]})'
    if k == 'map':
        return f'({render(e["s"], args_text)} ! {render(e["r"], args_text)})'
    if k == 'maplit':
        return 'map { ' + ', '.join(f'{key}: {render(v, args_text)}' for key, v in zip(e['ks'], e['vs'])) + ' }'
    if k == 'blit':
        return 'true()' if e['v'] else 'false()'
    if k == 'nanlit':
        return 'xs:double("NaN")'
    if k == 'nzlit':
        return '-0e0'
    if k == 'inflit':
        return 'xs:double("INF")' if e['v'] > 0 else 'xs:double("-INF")'
    if k == 'lookup':
        return f'function-lookup(xs:QName("fn:{e["name"]}"), {e["arity"]})'
    if k == 'step':
        return f'{render(e["s"], args_text)}/{render(e["r"], args_text)}'
    if k == 'some':
        return f'(some ${e["v"]} in {render(e["s"], args_text)} satisfies {render(e["c"], args_text)})'
    if k == 'mapk':
        return f'map {{ "k": {render(e["e"], args_text)} }}?k'
    if k == 'kids':
        return f'/r/*[position() le {e["n"]}]'
    if k == 'fun':
        types = e.get('types') or ['item()*'] * len(e['params'])
        return 'function(' + ', '.join('$' + p + ('' if t == 'item()*' else ' as ' + t)
                                       for p, t in zip(e['params'], types)) + ')' + \
            ('' if e.get('rtype', 'item()*') == 'item()*' else ' as ' + e['rtype']) + ' { ' + body_text(e['body'], args_text) + ' }'
    if k == 'ref':
        return f'{e["name"]}#{e["arity"]}'
    if k == 'call':
        f = e['f']
        ftxt = render(f, args_text)
        if f['k'] not in ('var', 'index', 'call'):
            ftxt = '(' + ftxt + ')'
        if len(e['args']) == 1 and e['args'][0]['k'] == 'var' and e['args'][0]['n'] == ARGS_MARK:
            return f'{ftxt}({args_text})'
        return ftxt + '(' + ', '.join(render(a, args_text) for a in e['args']) + ')'
    if k == 'scall':
        return e['name'] + '(' + ', '.join(render(a, args_text) for a in e['args']) + ')'
    if k == 'for':
        return f'(for ${e["v"]} in {render(e["s"], args_text)} return {render(e["r"], args_text)})'
    if k == 'let':
        return f'(let ${e["v"]} := {render(e["e"], args_text)} return {render(e["r"], args_text)})'
    if k == 'index':
        inner = render(e['e'], args_text)
        if e['e']['k'] not in ('var',) and not inner.startswith('('):
            inner = '(' + inner + ')'
        return f'{inner}[{e["j"]}]'
    if k == 'arr':
        return '[' + ', '.join(render(a, args_text) for a in e['es']) + ']'
    raise tla.MachineryError(f'cannot render {e!r}')


def body_text(body, args_text=None) -> str:
    """a let / for / some / if expression is the whole function body WITHOUT the parentheses render() puts
    around it as an operand (a parenthesized expression is another token for the implementation)"""
    t = render(body, args_text)
    if body['k'] in ('let', 'for', 'some', 'if') and t.startswith('(') and t.endswith(')'):
        return t[1:-1]
    return t


def outer_text(outer) -> str:
    return ', '.join(f'${name} := {render(expr)}' for name, expr in outer)


def ev_expr(e) -> dict:
    if e['a'] == 'call':
        if e.get('curry'):      # $f(a)(b)
            return {'k': 'call', 'f': {'k': 'call', 'f': e['f'], 'args': e['args'][:1]}, 'args': e['args'][1:]}
        return {'k': 'call', 'f': e['f'], 'args': e['args']}
    if e['a'] == 'partial':
        return {'k': 'call', 'f': e['f'], 'args': e['mask']}
    return {'k': 'ref', 'name': e['name'], 'arity': e['arity']}


def program_text(tpl: dict, n: int, events) -> str:
    """ONE XPath program: creation, then the events in order (makers open a nested let)."""
    def rest(evs, nh):
        if not evs:
            return '()'
        e = evs[0]
        if e['a'] == 'call':
            txt = render(ev_expr(e))
            return txt if len(evs) == 1 else f'({txt}, "{SEP}", {rest(evs[1:], nh)})'
        return f'(let $p{nh + 1} := {render(ev_expr(e))} return {rest(evs[1:], nh + 1)})'
    binds = outer_text(tpl['outer'])
    binds = (binds + ', ' if binds else '') + f'$fs := {render(tpl["create"][n - 1])}'
    return f'let {binds} return {rest(list(events), n)}'


def direct_text(tpl: dict, h: int, args) -> str:
    """the equivalent direct call of created function item h: called inside its creating scope"""
    binds = outer_text(tpl['outer'])
    body = render(tpl['direct'][h - 1], ', '.join(render(a) for a in args))
    return f'let {binds} return {body}' if binds else body


# ---------------------------------------------------------------------------------------
# projection: real result -> abstract value

def project_item(x):
    from elementpath.xpath_tokens import XPathFunction
    if isinstance(x, bool):
        return ('b', x)
    if isinstance(x, int):
        return ('i', int(x))
    if isinstance(x, Decimal):
        return ('c', int(x)) if x == int(x) else ('other', repr(x))
    if isinstance(x, float):
        from elementpath.datatypes import Float
        flt = isinstance(x, Float)             # xs:float
        if x != x:
            return ('fnan' if flt else 'nan', True)
        if x in (float('inf'), float('-inf')):
            return ('finf' if flt else 'inf', 1 if x > 0 else -1)
        if x != int(x):
            return ('other', repr(x))
        return ('f' if flt else 'd', int(x))
    if isinstance(x, str):
        return ('s', str(x))
    if isinstance(x, XPathFunction):
        return ('fn', '')
    return ('other', type(x).__name__)


def project(r):
    if not isinstance(r, list):
        r = [r]
    return tuple(project_item(x) for x in r)


def abstract(v):
    """TLC value (tuple of item records) -> the same shape as project()"""
    out = []
    for it in v:
        (k, x), = it.items()
        out.append((k, x))
    return tuple(out)


def is_poison(v) -> bool:
    return any(k == 'err' for k, _ in v)


class Hang(Exception):
    pass


def _alarm(signum, frame):
    raise Hang()


def guarded(fn):
    """outcome classes: ('ok', value) | ('err', code) | ('escaped', cls) | ('hang',).
    Hang detector: 10 s of CPU time of this process (ITIMER_PROF: a runaway loop or recursion; not fooled by a
    machine shared with other checks) plus a 300 s wall-clock backstop."""
    from elementpath.exceptions import ElementPathError
    signal.signal(signal.SIGALRM, _alarm)
    signal.signal(signal.SIGPROF, _alarm)
    signal.setitimer(signal.ITIMER_PROF, 10.0)
    signal.alarm(300)
    try:
        return ('ok', fn())
    except ElementPathError as e:
        return ('err', (e.code or '').split(':')[-1])
    except Hang:
        return ('hang', '')
    except RecursionError:
        return ('escaped', 'RecursionError')
    except Exception as e:  # noqa
        return ('escaped', type(e).__name__)
    finally:
        signal.setitimer(signal.ITIMER_PROF, 0)
        signal.alarm(0)


_P = None


def parsers():
    global _P
    if _P is None:
        from elementpath.xpath30 import XPath30Parser
        from elementpath.xpath31 import XPath31Parser
        _P = {'3.0': XPath30Parser, '3.1': XPath31Parser}
    return _P


DOC = '<r><a>1</a><b>22</b><c>333</c></r>'       # = FnEval!DocKids


def doc_root():
    import xml.etree.ElementTree as ET
    return ET.XML(DOC)


NS = {'p': 'urn:p', 'q': 'urn:p', 'r': 'urn:r'}      # = FnEval!Canon


def run_xpath(text: str, version: str, variables=None, doc: bool = False, ns: bool = False):
    import elementpath
    if ns:
        return guarded(lambda: elementpath.select(None, text, parser=parsers()[version], item=1, namespaces=NS,
                                                  variables=variables))
    if doc:
        return guarded(lambda: elementpath.select(doc_root(), text, parser=parsers()[version], variables=variables))
    return guarded(lambda: elementpath.select(None, text, parser=parsers()[version], item=1,
                                              variables=variables))


def split_results(items):
    out, cur = [], []
    for it in items:
        if it == ('s', SEP):
            out.append(tuple(cur))
            cur = []
        else:
            cur.append(it)
    out.append(tuple(cur))
    return out


# ---------------------------------------------------------------------------------------
# Closures: one leaf = one program

def py_arg(a, handles):
    """argument expression -> Python argument (ints; a function handle for the self-passing templates)"""
    if a['k'] in ('lit', 'str'):
        return a['v']
    if a['k'] == 'dlit':
        return float(a['v'])
    if a['k'] == 'index' and a['e']['k'] == 'var' and a['e']['n'] == 'fs':
        return handles[a['j']]
    raise tla.MachineryError(f'no python rendering for argument {a!r}')


def run_python_api(tpl: dict, n: int, events, version: str):
    """(ii) function items returned to Python and called there, in the TLC-chosen order.
    Returns (outcome, per-call results) like the XPath program."""
    import elementpath
    from elementpath import XPathContext
    parser_cls = parsers()[version]
    binds = outer_text(tpl['outer'])
    create = render(tpl['create'][n - 1])
    text = f'let {binds} return {create}' if binds else create

    def body():
        if tpl.get('doc'):
            root = doc_root()
            fs = elementpath.select(root, text, parser=parser_cls)
            ctx = XPathContext(root=root)
        elif tpl.get('ns'):
            fs = elementpath.select(None, text, parser=parser_cls, item=1, namespaces=NS)
            ctx = XPathContext(root=None, item=1, namespaces=NS)
        else:
            fs = elementpath.select(None, text, parser=parser_cls, item=1)
            ctx = XPathContext(root=None, item=1)
        if not isinstance(fs, list):
            fs = [fs]
        handles = {i + 1: f for i, f in enumerate(fs)}
        results = []
        for e in events:
            if e['a'] == 'call':
                f = handles[e['h']]
                pyargs = [py_arg(a, handles) for a in e['args']]
                if e.get('curry'):
                    results.append(project(f(pyargs[0], context=ctx)(pyargs[1], context=ctx)))
                else:
                    results.append(project(f(*pyargs, context=ctx)))
            elif e['a'] == 'partial':
                mask = ', '.join(render(a) for a in e['mask'])
                p = elementpath.select(None, f'$f({mask})', parser=parser_cls, item=1,
                                       variables={'f': handles[e['h']]})
                if isinstance(p, list):
                    p, = p
                handles[len(handles) + 1] = p
            else:
                handles[len(handles) + 1] = parser_cls().get_function(e['name'], e['arity'])
        return results
    return guarded(body)


def hazards(tpl_id: str, tpl: dict, n: int, events, j: int) -> dict:
    """structural facts about call event j: dumb projections of the history, no semantics.
    `_items` owner = what a shallow token copy shares its argument list with: every function item made
    by one inline function expression is the same token ('site'); a named reference is its own."""
    e = events[j]
    makers, nh = {}, n
    for q, x in enumerate(events):
        if x['a'] != 'call':
            nh += 1
            makers[nh] = (q, x)

    def root_of(h):
        chain = []
        while h > n and makers[h][1]['a'] == 'partial':
            chain.append(makers[h][0])
            h = makers[h][1]['h']
        return h, chain

    def owner(r):
        return 'site' if (r <= n and tpl['kind'] == 'inline') else ('h', r)

    root, chain = root_of(e['h'])
    named_root = root > n or tpl['kind'] == 'named'
    callee_kind = 'partial' if chain else ('named' if named_root else tpl['kind'])
    # an EARLIER function item of an inline function expression (a later evaluation of the expression exists)
    stale = root < n and tpl['kind'] == 'inline'
    # several items made by one partial-application expression: 'static' name(a, ?) / 'dynamic' $f(a, ?)
    form = {'partial-named': 'static', 'partial-inline': 'dynamic'}.get(tpl['kind'])
    slots = False
    if chain:
        made = min(chain)        # the first partial application on the way from the root
        for q in range(made + 1, j):
            x = events[q]
            if x['a'] == 'ref':
                continue
            r2, chain2 = root_of(x['h'])
            if owner(r2) != owner(root):
                continue
            if x['a'] == 'partial' or (x['a'] == 'call' and not chain2 and named_root):
                slots = True     # another partial application refilled / a plain call cleared the shared list
    earlier = [x['h'] for x in events[:j] if x['a'] == 'call']
    order = 'first' if not earlier else ('repeat' if all(x == e['h'] for x in earlier) else 'after_other')
    return dict(part='closures', template=tpl_id, scope=tpl['scope'], kind=callee_kind, same_site=n,
                callee_last=(root == n) if root <= n else None,
                stale_capture=bool(stale), slots_shared=bool(slots),
                lazy_fixed=tpl['kind'] in ('partial-inline', 'partial-named'), partial_form=form,
                param_collision=bool(tpl['collision']), order=order)


def closures_worker(job):
    table, leaves = job
    fails, n_eval, n_calls = [], 0, 0
    for (tpl_id, n, events, log, ilog) in leaves:
        tpl = table[tpl_id]
        text = program_text(tpl, n, events)
        call_idx = [j for j, e in enumerate(events) if e['a'] == 'call']
        exp = [abstract(v) for v in log]
        imp = [abstract(v) for v in ilog]
        runs = [('xpath', v, run_xpath(text, v, doc=bool(tpl.get('doc')), ns=bool(tpl.get('ns'))))
                for v in (('3.1',) if tpl.get('v31') else ('3.0', '3.1'))]
        runs.append(('python', '3.1', run_python_api(tpl, n, events, '3.1')))
        for binding, version, out in runs:
            n_eval += 1
            n_calls += len(call_idx)
            if out[0] == 'ok':
                obs = out[1] if binding == 'python' else split_results(project(out[1]))
                if len(obs) != len(exp):
                    obs = obs + [(('other', 'missing'),)] * (len(exp) - len(obs))
                for q, j in enumerate(call_idx):
                    if obs[q] != exp[q]:
                        feat = hazards(tpl_id, tpl, n, events, j)
                        feat.update(binding=binding, outcome='value', as_implemented=(obs[q] == imp[q]))
                        fails.append((feat, dict(part='closures', text=text, template=tpl_id, n=n, events=events,
                                                 binding=binding, parser=version, call=q, doc=bool(tpl.get('doc')), ns=bool(tpl.get('ns')),
                                                 tpl=(tpl if binding == 'python' else None)), exp[q], obs[q]))
            else:
                # the program died: attribute it to the first call the implementation-shaped model poisons,
                # else to the first call
                code = out[1]
                dead = [q for q in range(len(imp)) if is_poison(imp[q])]
                q = dead[0] if dead else 0
                feat = hazards(tpl_id, tpl, n, events, call_idx[q])
                predicted = bool(dead) and imp[q][0][1] == code
                feat.update(binding=binding, outcome=f'{out[0]}:{code}', as_implemented=predicted)
                fails.append((feat, dict(part='closures', text=text, template=tpl_id, n=n, events=events,
                                         binding=binding, parser=version, call=q, doc=bool(tpl.get('doc')), ns=bool(tpl.get('ns')),
                                         tpl=(tpl if binding == 'python' else None)), exp[q], list(out)))
    return n_eval, n_calls, fails


def direct_worker(job):
    table, rows = job
    fails, n_eval = [], 0
    for (tpl_id, h, args, val, ival) in rows:
        tpl = table[tpl_id]
        text = direct_text(tpl, h, args)
        exp, imp = abstract(val), abstract(ival)
        for v in (('3.1',) if tpl.get('v31') else ('3.0', '3.1')):
            out = run_xpath(text, v, doc=bool(tpl.get('doc')), ns=bool(tpl.get('ns')))
            n_eval += 1
            obs = project(out[1]) if out[0] == 'ok' else None
            if obs != exp:
                feat = dict(part='closures', template=tpl_id, scope=tpl['scope'], kind=tpl['kind'], same_site=1, callee_last=True,
                            stale_capture=False, slots_shared=False,
                            lazy_fixed=False, partial_form=None, param_collision=bool(tpl['collision']), order='first',
                            binding='direct', outcome='value' if out[0] == 'ok' else f'{out[0]}:{out[1]}',
                            as_implemented=(obs == imp) if out[0] == 'ok' else (is_poison(imp) and imp[0][1] == out[1]))
                fails.append((feat, dict(part='direct', text=text, parser=v, doc=bool(tpl.get('doc')), ns=bool(tpl.get('ns'))), exp,
                              obs if obs is not None else list(out)))
    return n_eval, fails


def load_table(output: str, tag: str = 'templates') -> dict:
    # TLC pretty-prints a long value as `<< "templates",\n   [...` : normalise the marker for printed_values
    output = re.sub(r'<<\s*"%s",\s*' % tag, '<<"%s", ' % tag, output)
    vals = list(tla.printed_values(output, tag))
    if not vals:
        raise tla.MachineryError(f'TLC did not print the {tag} table')
    return vals[0]


def start_tlc(chk: core.Check, tier: dict, parts) -> dict:
    """All TLC runs of the tier are independent: start them together (threads around subprocesses,
    4 TLC workers each), collect by name."""
    from concurrent.futures import ThreadPoolExecutor
    jobs = {}
    if 'closures' in parts:
        for name, consts in tier['closures']:
            wd = os.path.join(chk.scratch, 'closures-' + name)
            jobs[('closures', name, 'laws')] = ('Closures', tla.cfg_text(consts, invariants=['Laws']), wd,
                                                os.path.join(wd, 'g.dot'))
            jobs[('closures', name, 'asimpl')] = ('Closures', tla.cfg_text(consts, invariants=['AsImplementedAgrees']),
                                                  os.path.join(wd, 'asimpl'), None)
    if 'hof' in parts:
        for name, consts in tier['hof']:
            wd = os.path.join(chk.scratch, 'hof-' + name)
            jobs[('hof', name, 'laws')] = ('HOF', tla.cfg_text(consts, invariants=['Laws']), wd, os.path.join(wd, 'g.dot'))
        for name, consts in tier.get('coll', []):
            wd = os.path.join(chk.scratch, 'coll-' + name)
            jobs[('coll', name, 'laws')] = ('HOF', tla.cfg_text(consts, spec='SpecColl', invariants=['LawsColl']), wd,
                                            os.path.join(wd, 'g.dot'))
        for name, consts in tier.get('mixed', []):
            wd = os.path.join(chk.scratch, 'mixed-' + name)
            jobs[('mixed', name, 'laws')] = ('HOF', tla.cfg_text(consts, spec='SpecMixed', invariants=['LawsMixed']), wd,
                                             os.path.join(wd, 'g.dot'))
            wd = os.path.join(chk.scratch, 'ties-' + name)
            jobs[('ties', name, 'laws')] = ('HOF', tla.cfg_text(consts, spec='SpecTies', invariants=['LawsTies']), wd,
                                            os.path.join(wd, 'g.dot'))

        for name, consts in tier.get('special', []):
            wd = os.path.join(chk.scratch, 'special-' + name)
            jobs[('special', name, 'laws')] = ('HOF', tla.cfg_text(consts, spec='SpecSpecial', invariants=['LawsSpecial']), wd,
                                               os.path.join(wd, 'g.dot'))

    def one(item):
        key, (module, cfg, wd, dot) = item
        # HOF bounds its chains with a guard on TLCGet("level"): one TLC worker = strict breadth-first
        # order, so the set of expanded frontier states (and every count) is the same on every run
        return key, tla.run_tlc(module, cfg, wd, dump_dot=dot, workers=1 if module == 'HOF' else 4)
    with ThreadPoolExecutor(max_workers=4) as ex:
        return dict(ex.map(one, jobs.items()))


def run_closures(chk: core.Check, name: str, consts: dict, tlc: dict) -> None:
    wd = os.path.join(chk.scratch, 'closures-' + name)
    dot = os.path.join(wd, 'g.dot')
    r = tla.require_ok(tlc[('closures', name, 'laws')], f'Closures/{name}', min_distinct=50)
    chk.model(f'Closures/{name}', r)
    table = load_table(r.output)
    # the implementation-shaped model must be REFUTED by TLC (the sharing defect as an invariant violation)
    r2 = tlc[('closures', name, 'asimpl')]
    if r2.violated == 'AsImplementedAgrees':
        chk.coverage.setdefault('as_implemented_refuted', []).append(
            {'config': name, 'invariant': 'AsImplementedAgrees', 'states_to_counterexample': r2.distinct})
    elif r2.ok and not r2.violated:
        # no sharing is reachable inside these bounds (e.g. one named reference, one partial application)
        chk.coverage.setdefault('as_implemented_agrees', []).append({'config': name, 'states': r2.distinct})
    else:
        tla.require_ok(r2, f'Closures/{name} AsImplementedAgrees')
    g = tla.load_dot(dot)
    os.remove(dot)
    out = g.out()
    acts = {}
    for _, _, a, _ in g.edges:
        a = {'TypedCall': 'CallLater', 'TypedPartial': 'Partial'}.get(a, a)     # same actions, typed templates
        acts[a] = acts.get(a, 0) + 1
    for a, c in acts.items():
        FIRED[a] = FIRED.get(a, 0) + c
    leaves = []
    for sid, st in g.states.items():
        if out[sid] or st['phase'] != 'call' or not st['log']:
            continue
        leaves.append((st['tpl'], st['n'], st['ev'], st['log'], st['ilog']))
    leaves.sort(key=lambda x: tla.to_tla(x[:3]))
    chk.add('transitions', len(g.edges))
    chk.add('traces_validated_against_impl', len(leaves))
    nontrivial = set()
    for tpl_id, n, ev, log, ilog in leaves:
        hs = [e['h'] for e in ev if e['a'] == 'call']
        # non-trivial: more than one function item made by the function expression, or a maker
        # (partial application / named reference) in the history
        if n > 1 or any(e['a'] != 'call' for e in ev):
            nontrivial.add((tpl_id, n, ev))
    chk.add('distinct_nontrivial', len(nontrivial))
    for lf in leaves[:: max(1, len(leaves) // 5)][:5]:
        chk.sample(dict(program=program_text(table[lf[0]], lf[1], lf[2]), expected=[abstract(v) for v in lf[3]]))
    results = core.pool_map(closures_worker, [(table, c) for c in core.chunked(leaves, 64)], procs=PROCS)
    n_fail = 0
    for n_eval, n_calls, fails in results:
        chk.add('evaluations', n_eval)
        chk.add('calls_compared', n_calls)
        for feat, case, exp, obs in fails:
            n_fail += 1
            chk.fail(feat, case, exp, obs, what=case['text'][:300])
    # (iii) the equivalent direct calls
    rows = []
    for tpl_id, t in table.items():
        for d in (t['directs'] or ()):
            rows.append((tpl_id, d['h'], d['args'], d['val'], d['ival']))
    rows.sort(key=lambda x: tla.to_tla(x[:3]))
    results = core.pool_map(direct_worker, [(table, c) for c in core.chunked(rows, 16)], procs=PROCS)
    for n_eval, fails in results:
        chk.add('evaluations', n_eval)
        chk.add('direct_calls', n_eval)
        for feat, case, exp, obs in fails:
            n_fail += 1
            chk.fail(feat, case, exp, obs, what=case['text'][:300])
    print(f'  Closures/{name}: states={r.distinct} edges={len(g.edges)} programs={len(leaves)} '
          f'directs={len(rows)} failing_comparisons={n_fail} tlc={r.wall_s:.1f}s', flush=True)


# ---------------------------------------------------------------------------------------
# HOF: one edge = one higher-order function call

HOF_NAME = {'ForEachA': 'for-each', 'FilterA': 'filter', 'FoldLeftA': 'fold-left', 'FoldRightA': 'fold-right',
            'PairA': 'for-each-pair', 'ApplyA': 'apply', 'SortA': 'sort'}
FN_CLASS = {'fun': 'inline', 'let': 'closure', 'ref': 'named', 'call': 'partial', 'scall': 'partial',   # (scall without '?': 'callexpr')
            'arr': 'array', 'maplit': 'map', 'callexpr': 'callexpr'}


def seq_text(items) -> str:
    return '(' + ', '.join(str(n) if n >= 0 else f'({n})' for n in items) + ')'


def hof_expr(action: str, args: tuple, src_text: str, src_items, ftxt: str, zeros: dict) -> str | None:
    """the call text; ftxt is the text standing for the function argument (inline text or $f)"""
    name = HOF_NAME[action]
    if action in ('ForEachA', 'FilterA'):
        return f'{name}({src_text}, {ftxt})'
    if action in ('FoldLeftA', 'FoldRightA'):
        return f'{name}({src_text}, {render(zeros[args[0]])}, {ftxt})'
    if action == 'PairA':
        return f'{name}({src_text}, {seq_text(args[0])}, {ftxt})'
    if action == 'ApplyA':
        if src_items is None:
            return None
        return f'apply({ftxt}, [' + ', '.join(str(n) if n >= 0 else f'({n})' for n in src_items) + '])'
    if action == 'SortA':
        return f'sort({src_text})' if args[0] == 'none' else f'sort({src_text}, (), {ftxt})'
    raise tla.MachineryError(action)


def hof_parts(action: str, args: tuple, src_text: str, src_items, ftxt: str, zeros: dict):
    """(function name, argument texts) of the same call, for the renderings that use the higher-order function
    itself as a function item: name#n(args), apply(name#n, [args])"""
    name = HOF_NAME[action]
    if action in ('ForEachA', 'FilterA'):
        return name, [src_text, ftxt]
    if action in ('FoldLeftA', 'FoldRightA'):
        return name, [src_text, render(zeros[args[0]]), ftxt]
    if action == 'PairA':
        return name, [src_text, seq_text(args[0]), ftxt]
    if action == 'ApplyA':
        return name, [ftxt, '[' + ', '.join(str(n) if n >= 0 else f'({n})' for n in src_items) + ']']
    if action == 'SortA':
        return (name, [src_text]) if args[0] == 'none' else (name, [src_text, '()', ftxt])
    raise tla.MachineryError(action)


def hof_python_api(action: str, args: tuple, src_items, ftext: str | None, zeros: dict):
    """parser.get_function(hof, n)(python sequence, ..., function object)"""
    import elementpath
    from elementpath import XPathContext
    P = parsers()['3.1']

    def body():
        ctx = XPathContext(root=None, item=1)
        fobj = elementpath.select(None, ftext, parser=P, item=1) if ftext is not None else None
        if ftext is not None and ftext.lstrip().startswith(('[', 'map')):
            # select() hands an array out as the list of its members: take the item from the parsed token
            fobj = P().parse(ftext).evaluate(XPathContext(root=None, item=1))
        if isinstance(fobj, list):
            fobj, = fobj
        name = HOF_NAME[action]
        seq = list(src_items)
        if action in ('ForEachA', 'FilterA'):
            return P().get_function(name, 2)(seq, fobj, context=ctx)
        if action in ('FoldLeftA', 'FoldRightA'):
            z = zeros[args[0]]
            zero = [] if z['k'] == 'empty' else (list(z['ns']) if z['k'] == 'lits' else z['v'])
            return P().get_function(name, 3)(seq, zero, fobj, context=ctx)
        if action == 'PairA':
            return P().get_function(name, 3)(seq, list(args[0]), fobj, context=ctx)
        if action == 'SortA':
            if args[0] == 'none':
                return P().get_function(name, 1)(seq, context=ctx)
            return P().get_function(name, 3)(seq, [], fobj, context=ctx)
        raise tla.MachineryError(action)
    return guarded(body)


_nested_ok: dict = {}


def hof_worker(job):
    catalog, zeros, edges = job
    fails, n_eval = [], 0
    for (src, src_texts, action, args, dst) in edges:
        fname = args[-1]
        entry = catalog.get(fname)
        ftext = render(entry['e']) if entry else None
        exp = abstract(dst)
        src_items = [x['i'] for x in src]
        for nested, stext, src31, as_item in src_texts:
            versions = ('3.1',) if (src31 or action in ('ApplyA', 'SortA') or (entry and entry.get('v31'))) else ('3.0', '3.1')
            if nested:
                ok = _nested_ok.get(stext)
                if ok is None:
                    o = run_xpath(stext, '3.1')
                    ok = _nested_ok[stext] = (o[0] == 'ok' and project(o[1]) == abstract(src))
                if not ok:
                    continue
            runs = []
            for v in versions:
                t = hof_expr(action, args, stext, None if nested else src_items, ftext, zeros)
                if t is not None:
                    runs.append(('inline', v, t, run_xpath(t, v)))
                if ftext is not None:
                    t2 = hof_expr(action, args, stext, None if nested else src_items, '$f', zeros)
                    if t2 is not None:
                        t2 = f'let $f := {ftext} return {t2}'
                        runs.append(('var', v, t2, run_xpath(t2, v)))
            if not nested and action != 'ApplyA':
                runs.append(('python', '3.1', hof_expr(action, args, stext, src_items, ftext, zeros),
                             hof_python_api(action, args, src_items, ftext, zeros)))
            if as_item:
                # the higher-order function ITSELF as a function item (name#n, and through fn:apply), with $f bound
                # once, already called once before ("warm": a named reference keeps its last arguments), used twice
                fx = ftext is not None
                hname, hargs = hof_parts(action, args, stext, src_items, '$f' if fx else None, zeros)
                hargs = [a for a in hargs if a is not None]
                n_args = len(hargs)
                warm = ''
                if fx:
                    warm = f'$f := {ftext}, $w := $f(' + ', '.join(str(q + 1) for q in range(entry['arity'])) + '), '
                call = f'$h({", ".join(hargs)})'
                for v in versions:
                    if action == 'ApplyA' and v == '3.0':
                        continue
                    t = f'let {warm}$h := {hname}#{n_args} return ({call}, "{SEP}", {call})'
                    runs.append(('item-warm2', v, t, run_xpath(t, v)))
                t = f'let {warm}$z := 0 return apply({hname}#{n_args}, [{", ".join(hargs)}])'
                runs.append(('apply-item', '3.1', t, run_xpath(t, '3.1')))
                if action == 'ApplyA' and fx:
                    t = f'let $f := {ftext} return $f(' + ', '.join(str(n) if n >= 0 else f'({n})' for n in src_items) + ')'
                    runs.append(('dyncall', '3.1', t, run_xpath(t, '3.1')))
            for style, v, text, out in runs:
                n_eval += 1
                obs = project(out[1]) if out[0] == 'ok' else None
                if style == 'item-warm2' and obs is not None:
                    parts = split_results(obs)
                    obs = parts[0] if (len(parts) == 2 and parts[0] == parts[1]) else obs
                if obs != exp:
                    root = entry['e']['k'] if entry else 'none'
                    if root == 'scall' and not any(a.get('k') == 'hole' for a in entry['e']['args']):
                        root = 'callexpr'      # a static function call that RETURNS the function item
                    feat = dict(part='hof', hof=HOF_NAME[action], fn=fname, fn_class=FN_CLASS.get(root, 'none'),
                                nested_hof=bool(entry and entry['nested']), param_collision=bool(entry and entry['collision']),
                                zero=(args[0] if action in ('FoldLeftA', 'FoldRightA') else None),
                                style=style, src='nested' if nested else 'literal',
                                src_len=min(len(src_items), 4), outcome='value' if out[0] == 'ok' else f'{out[0]}:{out[1]}')
                    case = dict(part='hof', text=text, parser=v, style=style)
                    if style == 'python':
                        case.update(action=action, args=args, src_items=src_items, ftext=ftext, zeros=zeros)
                    fails.append((feat, case, exp, obs if obs is not None else list(out)))
    return n_eval, fails


def hof_call_text(action, args, src_text, catalog, zeros) -> str:
    entry = catalog.get(args[-1])
    return hof_expr(action, args, src_text, None, render(entry['e']) if entry else None, zeros)


def run_hof(chk: core.Check, name: str, consts: dict, tlc: dict) -> None:
    from collections import deque
    wd = os.path.join(chk.scratch, 'hof-' + name)
    dot = os.path.join(wd, 'g.dot')
    r = tla.require_ok(tlc[('hof', name, 'laws')], f'HOF/{name}', min_distinct=50)
    chk.model(f'HOF/{name}', r)
    catalog = load_table(r.output, 'catalog')
    zeros = load_table(r.output, 'zeros')
    g = tla.load_dot(dot)
    os.remove(dot)
    acts = {}
    for _, _, a, _ in g.edges:
        acts[a] = acts.get(a, 0) + 1
    for a in HOF_NAME:
        if not acts.get(a):
            raise tla.MachineryError(f'HOF/{name}: action {a} never fired (vacuous)')
    out = g.out()
    # nested spelling of non-initial states: the chain of calls that produced them
    nested: dict[int, str] = {}
    nested31: set[int] = set()          # the chain uses a 3.1-only construct (sort, map / array constructor)
    seen = set(g.init)
    q = deque(sorted(g.init))
    while q:
        s = q.popleft()
        acc = g.states[s]['acc']
        if not all('i' in x for x in acc):
            continue
        base = nested.get(s) or seq_text([x['i'] for x in acc])
        for d, a, args in sorted(out[s], key=lambda x: (x[1], tla.to_tla(x[2]))):
            if d not in seen and a != 'ApplyA':
                seen.add(d)
                nested[d] = hof_call_text(a, args, base, catalog, zeros)
                ent = catalog.get(args[-1])
                if s in nested31 or a == 'SortA' or (ent and ent.get('v31')):
                    nested31.add(d)
                q.append(d)
    jobs = []
    distinct = set()
    init = set(g.init)
    for s, d, a, args in g.edges:
        src, dst = g.states[s]['acc'], g.states[d]['acc']
        # (nested?, text, 3.1 only?, also with the higher-order function as a function item?: initial sequences)
        texts = [(False, seq_text([x['i'] for x in src]), False, s in init)]
        if s in nested and s not in init:
            texts.append((True, nested[s], s in nested31, False))
        jobs.append((src, texts, a, args, dst))
        if len(src) >= 1:
            distinct.add((a, args, src))      # non-trivial: the source sequence is not empty
    jobs.sort(key=lambda e: (e[2], tla.to_tla(e[3]), tla.to_tla(e[0])))
    chk.add('transitions', len(jobs))
    chk.add('traces_validated_against_impl', len(jobs))
    chk.add('distinct_nontrivial', len(distinct))
    for e in jobs[:: max(1, len(jobs) // 5)][:5]:
        chk.sample(dict(expr=hof_call_text(e[2], e[3], e[1][-1][1], catalog, zeros) or 'apply(...)', expected=abstract(e[4])))
    results = core.pool_map(hof_worker, [(catalog, zeros, c) for c in core.chunked(jobs, 64)], procs=PROCS)
    n_fail = 0
    for n_eval, fails in results:
        chk.add('evaluations', n_eval)
        chk.add('hof_evaluations', n_eval)
        for feat, case, exp, obs in fails:
            n_fail += 1
            chk.fail(feat, case, exp, obs, what=(case['text'] or '')[:300])
    print(f'  HOF/{name}: states={r.distinct} edges={len(jobs)} failing_comparisons={n_fail} tlc={r.wall_s:.1f}s', flush=True)



# ---------------------------------------------------------------------------------------
# HOF!SpecMixed: fn:sort with a key over items that are equal as Python values (1, 1.0, 1e0, true(), 0, false())

def mixed_item_text(it) -> str:
    (k, v), = it.items()
    inf = lambda: 'INF' if v > 0 else '-INF'
    return {'i': lambda: str(v), 'c': lambda: f'{v}.0', 'd': lambda: f'{v}e0', 's': lambda: f'"{v}"',
            'b': lambda: 'true()' if v else 'false()',
            'f': lambda: f'xs:float({v})', 'inf': lambda: f'xs:double("{inf()}")', 'finf': lambda: f'xs:float("{inf()}")',
            'nan': lambda: 'xs:double("NaN")', 'fnan': lambda: 'xs:float("NaN")'}[k]()


def mixed_py(it):
    (k, v), = it.items()
    if k in ('f', 'finf', 'fnan'):
        from elementpath.datatypes import Float
        return Float(v if k == 'f' else ('NaN' if k == 'fnan' else ('INF' if v > 0 else '-INF')))
    if k == 'inf':
        return float('inf') if v > 0 else float('-inf')
    if k == 'nan':
        return float('nan')
    return {'i': int, 'c': Decimal, 'd': float, 'b': bool, 's': str}[k](v)


def mixed_worker(job):
    part, catalog, edges = job
    import elementpath
    from elementpath import XPathContext
    fails, n_eval = [], 0
    for (src, key, dst) in edges:
        ftext = render(catalog[key]['e'])
        stext = '(' + ', '.join(mixed_item_text(x) for x in src) + ')'
        exp = abstract(dst)
        runs = [('inline', f'sort({stext}, (), {ftext})', None),
                ('var', f'let $f := {ftext} return sort({stext}, (), $f)', None),
                # the sorted items tagged with their type, by the expression itself
                ('inline-array', f'array:flatten(array:sort(array {{ {stext} }}, (), {ftext}))', None)]
        for style, text, _ in runs:
            out = run_xpath(text, '3.1')
            n_eval += 1
            obs = project(out[1]) if out[0] == 'ok' else None
            if obs != exp:
                fails.append((dict(part=part, hof='sort', key=key, style=style, src_len=len(src),
                                   outcome='value' if out[0] == 'ok' else f'{out[0]}:{out[1]}'),
                              dict(part=part, text=text, parser='3.1', style=style), exp,
                              obs if obs is not None else list(out)))

        def api():
            P = parsers()['3.1']
            fobj = elementpath.select(None, ftext, parser=P, item=1)
            return P().get_function('sort', 3)([mixed_py(x) for x in src], [], fobj,
                                               context=XPathContext(root=None, item=1))
        out = guarded(api)
        n_eval += 1
        obs = project(out[1]) if out[0] == 'ok' else None
        if obs != exp:
            fails.append((dict(part=part, hof='sort', key=key, style='python', src_len=len(src),
                               outcome='value' if out[0] == 'ok' else f'{out[0]}:{out[1]}'),
                          dict(part=part, text=f'get_function("sort", 3)({[mixed_py(x) for x in src]!r}, [], {ftext})',
                               parser='3.1', style='python-note'), exp, obs if obs is not None else list(out)))
    return n_eval, fails


def run_mixed(chk: core.Check, name: str, consts: dict, tlc: dict, kind: str = 'mixed') -> None:
    """kind 'mixed': HOF!SpecMixed (Python-equal items, separating keys); kind 'ties': HOF!SpecTies
    (distinguishable items, EQUAL keys: NaN, -0/0, (), 1/1e0)"""
    # the spec orders its four key strings by a table (FnEval!StrRank): cross-check it with codepoint order
    if sorted(['true', '1', 'false', '0']) != ['0', '1', 'false', 'true']:
        raise tla.MachineryError('FnEval!StrRank disagrees with codepoint order')
    spec, action, part = {'mixed': ('SpecMixed', 'SortMixedA', 'sortmixed'), 'ties': ('SpecTies', 'SortTiesA', 'sortties')}[kind]
    dot = os.path.join(chk.scratch, kind + '-' + name, 'g.dot')
    r = tla.require_ok(tlc[(kind, name, 'laws')], f'HOF.{spec}/{name}', min_distinct=50)
    chk.model(f'HOF.{spec}/{name}', r)
    catalog = load_table(r.output, 'catalog')
    g = tla.load_dot(dot)
    os.remove(dot)
    jobs, distinct = [], set()
    for s_, d_, a, args in g.edges:
        if a != action:
            raise tla.MachineryError(f'unexpected action {a} in {spec}')
        src, dst = g.states[s_]['acc'], g.states[d_]['acc']
        jobs.append((src, args[0], dst))
        # non-trivial: two items that are equal as Python values (1, 1.0, 1e0, true() / 0, false()) in the input
        pys = [mixed_py(x) for x in src]
        if kind == 'mixed' and any(pys[i] == pys[j] and src[i] != src[j] for i in range(len(src)) for j in range(i)):
            distinct.add((src, args[0]))
        # ties: two DIFFERENT non-numeric strings (their key is NaN / the constant) in the input
        if kind == 'ties' and len({x['s'] for x in src if not x['s'].isdigit()}) >= 2:
            distinct.add((src, args[0]))
    if not distinct:
        raise tla.MachineryError(f'{spec}: no non-trivial input (vacuous)')
    jobs.sort(key=lambda e: (e[1], tla.to_tla(e[0])))
    chk.add('transitions', len(jobs))
    chk.add('traces_validated_against_impl', len(jobs))
    chk.add('distinct_nontrivial', len(distinct))
    e = jobs[len(jobs) // 2]
    chk.sample(dict(expr=f'sort(({", ".join(mixed_item_text(x) for x in e[0])}), (), {render(catalog[e[1]]["e"])})',
                    expected=abstract(e[2])))
    results = core.pool_map(mixed_worker, [(part, catalog, c) for c in core.chunked(jobs, 32)], procs=PROCS)
    n_fail = 0
    for n_eval, fails in results:
        chk.add('evaluations', n_eval)
        chk.add(part + '_evaluations', n_eval)
        for feat, case, exp, obs in fails:
            n_fail += 1
            chk.fail(feat, case, exp, obs, what=(case['text'] or '')[:300])
    print(f'  HOF.{spec}/{name}: states={r.distinct} edges={len(jobs)} failing_comparisons={n_fail} tlc={r.wall_s:.1f}s',
          flush=True)



# ---------------------------------------------------------------------------------------
# HOF!SpecSpecial: fn:sort / array:sort over numbers of different types together with -INF, INF, NaN (double and float)

def key_kind(kv) -> str:
    """class of one sort key as printed by TLC (HOF!SpecialKeyTable): i c d f ninf pinf nan"""
    (k, v), = kv[0].items()
    if k in ('inf', 'finf'):
        return 'pinf' if v > 0 else 'ninf'
    return 'nan' if k == 'fnan' else k


def special_features(src, key, keytab) -> dict:
    """structural facts about the input (which classes of keys meet); the keys are TLC's"""
    kinds = {key_kind(keytab[(key, x)]) for x in src}
    floats = any(next(iter(keytab[(key, x)][0])) == 'f' for x in src)
    doubles = any(next(iter(keytab[(key, x)][0])) in ('d', 'inf', 'nan') for x in src)
    exact = bool(kinds & {'i', 'c'})
    return dict(nan_vs_exact='nan' in kinds and exact, ninf_vs_exact='ninf' in kinds and exact,
                pinf_vs_exact='pinf' in kinds and exact, float_vs_double=floats and doubles)


def special_python_api(pairs, ftext):
    """parser.get_function('sort', 1 | 3)(python sequence[, [], function object])"""
    import elementpath
    from elementpath import XPathContext

    def api():
        P = parsers()['3.1']
        ctx = XPathContext(root=None, item=1)
        seq = [mixed_py({k: v}) for k, v in pairs]
        if ftext is None:
            return P().get_function('sort', 1)(seq, context=ctx)
        fobj = elementpath.select(None, ftext, parser=P, item=1)
        return P().get_function('sort', 3)(seq, [], fobj, context=ctx)
    return guarded(api)


def special_worker(job):
    catalog, keytab, edges = job
    fails, n_eval = [], 0
    for (src, key, dst) in edges:
        ftext = None if key == 'none' else render(catalog[key]['e'])
        items = ', '.join(mixed_item_text(x) for x in src)
        stext = '(' + items + ')'
        exp = abstract(dst)
        if ftext is None:
            texts = [('inline-1', f'sort({stext})'),
                     ('ref', f'let $srt := sort#1 return $srt({stext})'),
                     ('apply-item', f'apply(sort#1, [{stext}])'),
                     ('array', f'array:flatten(array:sort([{items}]))')]
        else:
            texts = [('inline', f'sort({stext}, (), {ftext})'),
                     ('var', f'let $f := {ftext} return sort({stext}, (), $f)'),
                     ('ref', f'let $srt := sort#3 return $srt({stext}, (), {ftext})'),
                     ('array', f'array:flatten(array:sort([{items}], (), {ftext}))')]
        outs = [(style, text, run_xpath(text, '3.1')) for style, text in texts]
        pairs = [list(*x.items()) for x in src]
        outs.append(('python', f'get_function("sort")({[mixed_py(x) for x in src]!r}, [], {ftext})',
                     special_python_api(pairs, ftext)))
        for style, text, out in outs:
            n_eval += 1
            obs = project(out[1]) if out[0] == 'ok' else None
            if obs != exp:
                feat = dict(part='sortspecial', hof='sort', key=key, style=style, src_len=len(src),
                            outcome='value' if out[0] == 'ok' else f'{out[0]}:{out[1]}')
                feat.update(special_features(src, key, keytab))
                case = dict(part='sortspecial', text=text, parser='3.1', style=style)
                if style == 'python':
                    case.update(pairs=pairs, ftext=ftext)
                fails.append((feat, case, exp, obs if obs is not None else list(out)))
    return n_eval, fails


def run_special(chk: core.Check, name: str, consts: dict, tlc: dict) -> None:
    dot = os.path.join(chk.scratch, 'special-' + name, 'g.dot')
    r = tla.require_ok(tlc[('special', name, 'laws')], f'HOF.SpecSpecial/{name}', min_distinct=50)
    chk.model(f'HOF.SpecSpecial/{name}', r)
    catalog = load_table(r.output, 'catalog')
    keytab = {(k, x): v for (k, x, v) in load_table(r.output, 'speckeys')}
    g = tla.load_dot(dot)
    os.remove(dot)
    jobs, distinct, met = [], set(), set()
    for s_, d_, a, args in g.edges:
        if a != 'SortSpecialA':
            raise tla.MachineryError(f'unexpected action {a} in SpecSpecial')
        src, dst = g.states[s_]['acc'], g.states[d_]['acc']
        jobs.append((src, args[0], dst))
        # non-trivial: a special key (-INF, INF, NaN) together with an integer / decimal key, and the order changes
        f = special_features(src, args[0], keytab)
        met |= {k for k, v in f.items() if v}
        if (f['nan_vs_exact'] or f['ninf_vs_exact'] or f['pinf_vs_exact']) and src != dst:
            distinct.add((src, args[0]))
    if met != {'nan_vs_exact', 'ninf_vs_exact', 'pinf_vs_exact', 'float_vs_double'} or not distinct:
        raise tla.MachineryError(f'SpecSpecial: key classes never met: {met} (vacuous)')
    jobs.sort(key=lambda e: (e[1], tla.to_tla(e[0])))
    chk.add('transitions', len(jobs))
    chk.add('traces_validated_against_impl', len(jobs))
    chk.add('distinct_nontrivial', len(distinct))
    e = [j for j in jobs if j[1] == 'ninfint' and len(j[0]) == 3][len(jobs) // 9]
    chk.sample(dict(expr=f'sort(({", ".join(mixed_item_text(x) for x in e[0])}), (), {render(catalog[e[1]]["e"])})',
                    expected=abstract(e[2])))
    results = core.pool_map(special_worker, [(catalog, keytab, c) for c in core.chunked(jobs, 32)], procs=PROCS)
    n_fail = 0
    for n_eval, fails in results:
        chk.add('evaluations', n_eval)
        chk.add('sortspecial_evaluations', n_eval)
        for feat, case, exp, obs in fails:
            n_fail += 1
            chk.fail(feat, case, exp, obs, what=(case['text'] or '')[:300])
    print(f'  HOF.SpecSpecial/{name}: states={r.distinct} edges={len(jobs)} failing_comparisons={n_fail} tlc={r.wall_s:.1f}s',
          flush=True)


# ---------------------------------------------------------------------------------------
# HOF!SpecColl: the $collation argument of fn:sort in the 2- and 3-argument form

COLL_TEXT = {'none': '()',
             'cp': '"http://www.w3.org/2005/xpath-functions/collation/codepoint"',
             'ci': '"http://www.w3.org/2005/xpath-functions/collation/html-ascii-case-insensitive"',
             'bad': '"urn:x-no-such-collation"'}


def coll_worker(job):
    catalog, edges = job
    import elementpath
    from elementpath import XPathContext
    fails, n_eval = [], 0
    for (src, coll, key, dst) in edges:
        words = [x['s'] for x in src]
        stext = '(' + ', '.join(f'"{w}"' for w in words) + ')'
        ftext = None if key == 'nokey' else render(catalog[key]['e'])
        exp_err = any('err' in x for x in dst)
        exp = abstract(dst)
        ctext = COLL_TEXT[coll]
        texts = []
        if ftext is None:
            texts.append(('inline', f'sort({stext}, {ctext})'))
            if coll == 'none':
                texts.append(('inline-1', f'sort({stext})'))
            texts.append(('ref', f'let $srt := sort#2 return $srt({stext}, {ctext})'))
            texts.append(('array', f'array:flatten(array:sort(array {{ {stext} }}, {ctext}))'))
        else:
            texts.append(('inline', f'sort({stext}, {ctext}, {ftext})'))
            texts.append(('var', f'let $c := {ctext}, $f := {ftext} return sort({stext}, $c, $f)'))
            texts.append(('ref', f'let $srt := sort#3 return $srt({stext}, {ctext}, {ftext})'))
            texts.append(('array', f'array:flatten(array:sort(array {{ {stext} }}, {ctext}, {ftext}))'))
        outs = [(style, text, run_xpath(text, '3.1')) for style, text in texts]

        def api():
            P = parsers()['3.1']
            ctx = XPathContext(root=None, item=1)
            c = [] if coll == 'none' else ctext.strip('"')
            if ftext is None:
                return P().get_function('sort', 2)(list(words), c, context=ctx)
            fobj = elementpath.select(None, ftext, parser=P, item=1)
            return P().get_function('sort', 3)(list(words), c, fobj, context=ctx)
        outs.append(('python', f'get_function("sort")({words!r}, {ctext}, {ftext})', guarded(api)))
        for style, text, out in outs:
            n_eval += 1
            if exp_err:
                ok = out[0] == 'err'            # FOCH0002 is not named by the property: outcome class only
            else:
                ok = out[0] == 'ok' and project(out[1]) == exp
            if not ok:
                fails.append((dict(part='sortcoll', hof='sort', coll=coll, key=key, style=style, src_len=len(src),
                                   expected_kind='err' if exp_err else 'value',
                                   outcome='value' if out[0] == 'ok' else f'{out[0]}:{out[1]}'),
                              dict(part='sortcoll', text=text, parser='3.1', style=style, expect_err=exp_err), exp,
                              project(out[1]) if out[0] == 'ok' else list(out)))
    return n_eval, fails


def run_coll(chk: core.Check, name: str, consts: dict, tlc: dict) -> None:
    # the spec ranks its four words by tables (HOF!CpRank, CiRank): cross-check them with Python's orders
    if sorted(['b', 'A', 'a', 'B']) != ['A', 'B', 'a', 'b'] or sorted(['b', 'A', 'a', 'B'], key=str.lower) != ['A', 'a', 'b', 'B']:
        raise tla.MachineryError('HOF!CpRank / CiRank disagree with codepoint / ASCII case-insensitive order')
    dot = os.path.join(chk.scratch, 'coll-' + name, 'g.dot')
    r = tla.require_ok(tlc[('coll', name, 'laws')], f'HOF.SpecColl/{name}', min_distinct=50)
    chk.model(f'HOF.SpecColl/{name}', r)
    catalog = load_table(r.output, 'catalog')
    g = tla.load_dot(dot)
    os.remove(dot)
    jobs, distinct = [], set()
    for s_, d_, a, args in g.edges:
        if a != 'SortCollA':
            raise tla.MachineryError(f'unexpected action {a} in SpecColl')
        src, dst = g.states[s_]['acc'], g.states[d_]['acc']
        jobs.append((src, args[0], args[1], dst))
        # non-trivial: two words that differ in case only, or a codepoint order that differs from the ci order
        ws = [x['s'] for x in src]
        if len(ws) >= 2 and (len({w.lower() for w in ws}) < len(set(ws)) or sorted(ws) != sorted(ws, key=str.lower)):
            distinct.add((src, args[0], args[1]))
    need = {(c, k3) for c in ('none', 'cp', 'ci', 'bad') for k3 in (True, False)}
    seen = {(j[1], j[2] != 'nokey') for j in jobs}
    if need - seen:
        raise tla.MachineryError(f'SpecColl: collation x form combinations never fired: {sorted(need - seen)}')
    jobs.sort(key=lambda e: (e[1], e[2], tla.to_tla(e[0])))
    chk.add('transitions', len(jobs))
    chk.add('traces_validated_against_impl', len(jobs))
    chk.add('distinct_nontrivial', len(distinct))
    e = [j for j in jobs if j[1] == 'ci' and j[2] == 'ident' and len(j[0]) == 3][7]
    chk.sample(dict(expr=f'sort(({", ".join(repr(x["s"]) for x in e[0])}), {COLL_TEXT["ci"]}, function($x) {{ $x }})',
                    expected=abstract(e[3])))
    results = core.pool_map(coll_worker, [(catalog, c) for c in core.chunked(jobs, 32)], procs=PROCS)
    n_fail = 0
    for n_eval, fails in results:
        chk.add('evaluations', n_eval)
        chk.add('sortcoll_evaluations', n_eval)
        for feat, case, exp, obs in fails:
            n_fail += 1
            chk.fail(feat, case, exp, obs, what=(case['text'] or '')[:300])
    print(f'  HOF.SpecColl/{name}: states={r.distinct} edges={len(jobs)} failing_comparisons={n_fail} tlc={r.wall_s:.1f}s',
          flush=True)


PROCS = int(os.environ.get('VERIF_PROCS', '12'))
DEV_PART = 'all'
FIRED: dict = {}


def _tup(x):
    return tuple(_tup(y) for y in x) if isinstance(x, list) else x


def replay(rec: dict) -> int:
    core.setup_repo_path()
    case = rec['case']
    exp = _tup(rec['expected'])
    print('part     :', case.get('part'), ' binding/style:', case.get('binding') or case.get('style'),
          ' parser:', case.get('parser'))
    print('text     :', case.get('text'))
    print('expected :', exp)
    if case.get('part') == 'closures' and case.get('binding') == 'python':
        out = run_python_api(case['tpl'], case['n'], case['events'], case.get('parser', '3.1'))
        got = out[1][case['call']] if out[0] == 'ok' and case['call'] < len(out[1]) else out
    elif case.get('part') == 'sortspecial' and case.get('style') == 'python':
        out = special_python_api(case['pairs'], case['ftext'])
        got = project(out[1]) if out[0] == 'ok' else out
    elif case.get('part') == 'hof' and case.get('style') == 'python':
        out = hof_python_api(case['action'], _tup(case['args']), case['src_items'], case['ftext'], case['zeros'])
        got = project(out[1]) if out[0] == 'ok' else out
    else:
        out = run_xpath(case['text'], case.get('parser', '3.1'), doc=bool(case.get('doc')), ns=bool(case.get('ns')))
        got = project(out[1]) if out[0] == 'ok' else out
        if out[0] == 'ok' and case.get('part') == 'closures' and 'call' in case:
            parts = split_results(got)
            got = parts[case['call']] if case['call'] < len(parts) else None
    print('observed :', got)
    if case.get('expect_err'):
        bad = not (isinstance(got, tuple) and got and got[0] == 'err')
    else:
        bad = got != exp
    if bad:
        print('VIOLATION property=C16 replay=(replayed)')
        return 1
    return 0


def run(chk: core.Check) -> None:
    core.setup_repo_path()
    chk.assumptions += [
        'spec/FnEval.tla Eval/Apply (environment-passing semantics, XPath 3.1 3.1.5-3.1.7, F&O 3.1 16.1-16.2) is the oracle; '
        'EvalI (implementation-shaped) only classifies failures',
        'values: small integers, integral decimals / doubles / floats, -INF, INF, NaN, strings, booleans; sort keys are single '
        'numbers (default collation never consulted)',
        'F&O 3.1 16.2.6 deep-less-than orders numeric sort keys: NaN < -INF < finite (after promotion) < INF; '
        'fn:function-lookup binds the focus of its own call (F&O 3.1 16.1.1)',
    ]
    tier = TIERS[chk.tier]
    parts = ('closures', 'hof') if DEV_PART == 'all' else (DEV_PART,)
    tlc = start_tlc(chk, tier, parts)
    if DEV_PART in ('all', 'closures'):
        FIRED.clear()
        for name, consts in tier['closures']:
            run_closures(chk, name, consts, tlc)
        for a in ('Create', 'EndScope', 'CallLater', 'Partial', 'NamedRef'):
            if not FIRED.get(a):
                raise tla.MachineryError(f'Closures: action {a} never fired (vacuous)')
        chk.coverage['closures_actions_fired'] = dict(FIRED)
        if not chk.coverage.get('as_implemented_refuted'):
            raise tla.MachineryError('TLC did not refute Closures!AsImplementedAgrees in any configuration: '
                                     'the token-sharing model is vacuous')
    if DEV_PART in ('all', 'hof'):
        for name, consts in tier['hof']:
            run_hof(chk, name, consts, tlc)
        for name, consts in tier.get('mixed', []):
            run_mixed(chk, name, consts, tlc)
            run_mixed(chk, name, consts, tlc, kind='ties')
        for name, consts in tier.get('coll', []):
            run_coll(chk, name, consts, tlc)
        for name, consts in tier.get('special', []):
            run_special(chk, name, consts, tlc)
    chk.coverage['exhaustive'] = True
    chk.coverage['rule'] = (
        'Closures: every leaf of the TLC forest (template x 1..3 iterations of one function expression x every '
        'sequence of CallLater/Partial/NamedRef events up to the bound) is one program, run as XPath (3.0, 3.1) and '
        'through the Python API; non-trivial = more than one function item made by the expression, or a maker event.  '
        'HOF: every edge of the TLC graph (sequence x higher-order function x catalog function [x zero / other sequence]) '
        'is one call, rendered with the function inline, bound to a variable, through parser.get_function, and with the '
        'source sequence literal or as the nested call chain that produced it; non-trivial = non-empty source sequence.  '
        'SpecMixed: every sequence up to the bound over 1, 1.0, 1e0, true(), 0, false() x 5 key functions, fn:sort and '
        'array:sort; non-trivial = the input holds two items equal as Python values but different as XPath items.  '
        'SpecTies: every sequence up to the bound over "x","y","9","10" x 5 keys that are EQUAL for distinguishable items '
        '(NaN via number#1, constant NaN, -0e0/0e0, (), 1/1e0); non-trivial = two different non-numeric strings in the input.  '
        'HOF edges are also run with the higher-order function itself as a function item (name#n twice in one expression, '
        'apply(name#n, [...])) and $f bound once and already called; maps and arrays are in the function catalog.  '
        'SpecSpecial: every sequence up to the bound over -5, 7, 2.0, 3e0, xs:float(4), -INF, INF, NaN, xs:float(-INF) x '
        '4 keys (absent, identity, integers -> -INF, integers and decimals -> INF): sort, sort#n, apply(sort#1), array:sort, '
        'Python API; non-trivial = a special key meets an integer / decimal key and the order changes.  '
        'SpecColl: every sequence up to the bound over "b","A","a","B" x 4 collations (absent/empty, codepoint, '
        'html-ascii-case-insensitive, unsupported) x 3 keys (absent, identity, string#1): sort, sort#n, array:sort, Python API.')
