"""C19 -- evaluation preserves process-global state: locale, locks, environment, entities.

Specs: spec/CollationLock.tla (step machine of CollationManager.__enter__/__exit__ and of its call
sites, written to the PROPERTY with an as-implemented variant whose deviations are the named
actions LeakRaise / YieldHolding / LeaveHolding), spec/TraceCollation.tla (binding B),
spec/Globals.tla (os.environ, decimal context, allow_environment gate, entity-declaring DOCTYPE).

TLC decides the design (safety over all interleavings x fault sequences x installed-locale
configurations; liveness under weak fairness) and is the source of every expectation:

  binding A  every transition of the dumped CollationLock graphs (property AND pinned variant) is
             covered by a behaviour that is replayed on the real code: real threads run real
             Selector.select / iter_select calls, `locale._setlocale` is scripted (fault injection
             as the behaviour says), `elementpath.collations._locale_collate_lock` is an
             instrumented lock, and a gate releases one real thread per spec action so that the
             TLC schedule is reproduced at the model's granularity.  The code must refine the
             property variant; where it does not, the pinned variant names the deviation.
  binding B  ndjson logs of the process-global effects (acquire / query / set / release /
             self_wait / hung, per-thread sequenced) of collation-using expressions and of seeded
             multi-thread stress runs are validated by TLC against TraceCollation.
  API level  after EVERY evaluation LC_COLLATE, lock.locked(), the decimal context and os.environ
             are compared with their snapshots and a later collation-using evaluation must complete
             with the same answer; Globals transitions are replayed on parse-xml /
             parse-xml-fragment / environment-variable / available-environment-variables.
  exploration (not model checking): independent Selectors from 8 threads == sequential results.

Instrumentation is monkeypatching from this module, active only in the check process.
Implementation-defined and excluded: the collation ORDER, the error code of an unsupported
collation, flags of the decimal context, DOCTYPEs that declare no entity.
"""
from __future__ import annotations

import collections
import decimal
import json
import locale
import os
import queue
import random
import re
import signal
import sys
import threading
import time
from concurrent.futures import ThreadPoolExecutor

from .. import core, tla

LEVEL = 'model_checking'

CODEPOINT = 'http://www.w3.org/2005/xpath-functions/collation/codepoint'
HTML_CI = 'http://www.w3.org/2005/xpath-functions/collation/html-ascii-case-insensitive'
UCA = 'http://www.w3.org/2013/collation/UCA'

_REAL = getattr(locale, '_c19_real_setlocale', None) or locale._setlocale   # the C function
locale._c19_real_setlocale = _REAL

# ----------------------------------------------------------------------------------------------
# binding tables (dumb, 1:1)

# abstract locale -> the name the C library sees
LOCALE_NAME = {
    'sim': {'C': 'C', 'L1': 'de_DE.UTF-8', 'L2': 'it_IT.UTF-8', 'FB': 'en_US.UTF-8'},
    # the sandbox as it is: only C, C.utf8 and POSIX exist
    'real': {'C': 'C', 'L1': 'C.UTF-8', 'L2': 'de_DE.UTF-8', 'FB': 'en_US.UTF-8'},
}
ABSTRACT = {
    'sim': {'C': 'C', 'POSIX': 'C', 'de_DE.UTF-8': 'L1', 'it_IT.UTF-8': 'L2', 'en_US.UTF-8': 'FB'},
    'real': {'C': 'C', 'POSIX': 'C', 'C.utf8': 'L1', 'C.UTF-8': 'L1', 'de_DE.UTF-8': 'L2', 'en_US.UTF-8': 'FB'},
}
LANG = {'sim': {'L1': 'de_DE', 'L2': 'it_IT'}, 'real': {'L1': 'C', 'L2': 'de_DE'}}
PLAIN_NAME = {'sim': {'L1': 'de_DE.UTF-8', 'L2': 'it_IT.UTF-8'}, 'real': {'L1': 'C.utf8', 'L2': 'de_DE.UTF-8'}}
# CollTable of spec/CollationLock.tla (loc, fb): used only to render expected hook values
LOC = {'cp': None, 'L1': 'L1', 'L2': 'L2', 'U1': 'L1', 'U2': 'L2', 'UFB': 'FB'}
DEVIATIONS = ('LeakRaise', 'YieldHolding', 'LeaveHolding', 'ReenterHolding', 'EnterWithoutLock')
SILENT = ('CallArg', 'EvalArgs', 'LeaveHolding', 'ResumeLazy', 'Enter0', 'Recurse', 'ReenterHolding')


def coll_uris(c: str, mode: str) -> list[str]:
    """Concrete collation URIs of one abstract collation class."""
    if c == 'cp':
        return [CODEPOINT, HTML_CI]
    if c in ('L1', 'L2'):
        return [PLAIN_NAME[mode][c], f'{UCA}?lang={LANG[mode][c]};fallback=no']
    if c in ('U1', 'U2'):
        return [f'{UCA}?lang={LANG[mode]["L" + c[1]]}', f'{UCA}?lang={LANG[mode]["L" + c[1]]};fallback=yes']
    if c == 'UFB':
        return [UCA, UCA + '?fallback=yes']
    raise ValueError(c)


def coll_class(uri: str | None, mode: str) -> str | None:
    if uri is None:
        return None
    for c in LOC:
        if uri in coll_uris(c, mode):
            return c
    return None


PLAIN_SITES = [
    "compare('a','b',{C})", "contains('abc','b',{C})", "starts-with('abc','a',{C})",
    "ends-with('abc','c',{C})", "substring-before('abc','b',{C})", "substring-after('abc','b',{C})",
    "max(('a','b'),{C})", "min(('b','a'),{C})", "deep-equal(('a','b'),('a','b'),{C})",
    "contains-token('a b','a',{C})", "collation-key('a',{C})", "sort(('b','a'),{C})",
]
STRING_SITES = ["substring-before('abc','b',{C})", "substring-after('cba','b',{C})",
                "max(('a','A'),{C})", "min(('a','b'),{C})"]
ERROR_SITES = ["contains-token((1),'a',{C})", "deep-equal((abs#1),(1),{C})", "max(('a',1),{C})"]
GEN_SITES = ['distinct-values', 'index-of']
LAZY_SITES = ["deep-equal({E}, 0, {C})", "contains-token({S}, 'a', {C})"]
# re-entrant call sites: the members of maps and arrays are compared by the site itself
REC_SITES = ["deep-equal(['a'], ['a'], {C})", "deep-equal(map{'k':'a'}, map{'k':'a'}, {C})",
             "deep-equal([['a','b']], [['a','b']], {C})", "deep-equal([map{'k':['a']}], [map{'k':['a']}], {C})"]


def q(s: str) -> str:
    return "'" + s.replace("'", "''") + "'"


# ----------------------------------------------------------------------------------------------
# instrumentation

class SelfDeadlock(BaseException):
    """The thread asked for the lock it already holds (it would block for ever)."""


class LockTimeout(BaseException):
    """acquire() did not succeed within the hang detector's timeout."""


class ReplayAbort(BaseException):
    """The scheduler tears the replay down."""


ABORT = '__abort__'


class Gate:
    def __init__(self, tids):
        self.posts = {t: queue.Queue() for t in tids}
        self.grants = {t: queue.Queue() for t in tids}
        self.acks: queue.Queue = queue.Queue()
        self.free = False


class InstrLock:
    """Stands in for elementpath.collations._locale_collate_lock (a threading.Lock)."""

    def __init__(self, world):
        self._l = threading.Lock()
        self.world = world
        self.owner = 0

    def acquire(self, blocking=True, timeout=-1):
        return self.world.on_acquire(blocking, timeout)

    def release(self):
        self.world.on_release()

    def locked(self):
        return self._l.locked()

    def __enter__(self):
        return self.acquire()

    def __exit__(self, *a):
        self.release()


def _peek_collation():
    """The collation of the CollationManager that is calling the lock (diagnostic identity)."""
    try:
        f = sys._getframe(3)
    except ValueError:
        return None
    for _ in range(8):
        if f is None:
            break
        s = f.f_locals.get('self')
        if s is not None and hasattr(s, 'lc_collate') and hasattr(s, 'collation'):
            return s.collation
        f = f.f_back
    return None


class World:
    """The process globals as seen by the code under test: LC_COLLATE and the collation lock."""

    def __init__(self, mode='sim', installed=(), init='C', gate=None, log=None, tr=0, acquire_timeout=3.0):
        self.mode = mode
        self.installed = set(installed)        # names the C library accepts (besides C / POSIX)
        self.cell = init
        self.abs_of = ABSTRACT[mode]
        self.gate = gate
        self.log = log
        self.tr = tr
        self.mutex = threading.Lock()
        self.tids: dict[int, int] = {}
        self.seq: collections.Counter = collections.Counter()
        self.aborted: set[int] = set()
        self.script: collections.deque = collections.deque()   # ungated fault injection for `set`
        self.acquire_timeout = acquire_timeout
        self.lock = InstrLock(self)
        self.real_mismatch = None
        if mode == 'real':
            _REAL(locale.LC_COLLATE, init)

    # -- bookkeeping
    def register(self, tid):
        self.tids[threading.get_ident()] = tid

    def tid(self):
        return self.tids.get(threading.get_ident(), 0)

    def abstract(self, name):
        if isinstance(name, str) and '\x00' in name:
            return 'L2'          # a locale name with a NUL: used only where L2 is not installed
        return self.abs_of.get(name, name)

    def current(self):
        return self.cell if self.mode == 'sim' else _REAL(locale.LC_COLLATE, None)

    def emit(self, tid, e, v='', r=''):
        if self.log is None:
            return
        with self.mutex:
            self.seq[tid] += 1
            self.log.append({'tr': self.tr, 't': tid, 's': self.seq[tid], 'e': e, 'v': v, 'r': r,
                             'inst': [], 'lc0': ''})

    def _gated(self, tid):
        g = self.gate
        return g is not None and not g.free and tid in g.posts and tid not in self.aborted

    def _post(self, tid, p):
        self.gate.posts[tid].put(p)

    def _grant(self, tid):
        g = self.gate.grants[tid].get()
        if g == ABORT:
            self.aborted.add(tid)
            raise ReplayAbort()
        return g

    # -- locale._setlocale
    def c_setlocale(self, category, value=None):
        if category != locale.LC_COLLATE:
            return _REAL(category, value)
        tid = self.tid()
        gated = self._gated(tid)
        if value is None:
            if gated:
                self._post(tid, ('query', None))
                self._grant(tid)
            cur = self.current()
            if tid not in self.aborted:
                self.emit(tid, 'query', self.abstract(cur))
            if gated:
                self.gate.acks.put((tid, None))
            return cur
        grant = None
        if gated:
            self._post(tid, ('set', self.abstract(value)))
            grant = self._grant(tid)
        elif self.script and tid not in self.aborted:
            grant = self.script.popleft()
        err = None
        try:
            if grant == 'fail':
                raise locale.Error('unsupported locale setting')
            if grant == 'crash' or (self.mode == 'sim' and '\x00' in value):
                raise ValueError('embedded null character')      # what the C wrapper does for a NUL
            if self.mode == 'sim':
                if value in ('', 'C', 'POSIX'):
                    self.cell = 'C'
                elif value in self.installed:
                    self.cell = value
                else:
                    raise locale.Error('unsupported locale setting')
                res = self.cell
            else:
                res = _REAL(category, value)
        except locale.Error:
            if grant == 'ok':
                err = self.real_mismatch = f'setlocale({value!r}) failed but the behaviour says ok'
            if tid not in self.aborted:
                self.emit(tid, 'set', self.abstract(value), 'fail')
            if gated:
                self.gate.acks.put((tid, err))
            raise
        except Exception:          # not a locale.Error: ValueError (embedded NUL), TypeError, MemoryError
            if tid not in self.aborted:
                self.emit(tid, 'set', self.abstract(value), 'crash')
            if gated:
                self.gate.acks.put((tid, None))
            raise
        if tid not in self.aborted:
            self.emit(tid, 'set', self.abstract(value), 'ok')
        if gated:
            self.gate.acks.put((tid, None))
        return res

    # -- _locale_collate_lock
    def on_acquire(self, blocking=True, timeout=-1):
        tid = self.tid()
        lk = self.lock
        if tid in self.aborted:
            if lk._l.acquire(False):
                lk.owner = tid
            return True
        if self._gated(tid):
            uri = _peek_collation()
            timed = (not blocking) or (timeout is not None and timeout >= 0)
            while True:
                self._post(tid, ('acquire', coll_class(uri, self.mode), lk.owner == tid and lk._l.locked(), uri, timed))
                g_ = self._grant(tid)
                if g_ != 'timeout':
                    break
                if timed:     # VIRTUAL clock: the holder kept the lock longer than any time-out
                    self.emit(tid, 'acquire_timeout')
                    self.gate.acks.put((tid, None))
                    return False
                self.gate.acks.put((tid, None))      # a blocking acquire simply goes on waiting
            if not lk._l.acquire(False):
                self.gate.acks.put((tid, 'lock_busy'))
                self._grant(tid)      # only an abort can follow
            lk.owner = tid
            self.emit(tid, 'acquire')
            self.gate.acks.put((tid, None))
            return True
        if lk.owner == tid and lk._l.locked():
            self.emit(tid, 'self_wait')
            self.aborted.add(tid)
            raise SelfDeadlock()
        if (not blocking) or (timeout is not None and timeout >= 0):
            # VIRTUAL clock: a busy lock stays busy longer than any time-out
            ok = lk._l.acquire(False)
            if not ok:
                self.emit(tid, 'acquire_timeout')
                return False
        elif not blocking:
            ok = lk._l.acquire(False)
        else:
            ok = lk._l.acquire(True, self.acquire_timeout if timeout is None or timeout < 0 else
                               min(timeout, self.acquire_timeout))
        if not ok:
            if blocking and (timeout is None or timeout < 0):
                self.emit(tid, 'hung')
                self.aborted.add(tid)
                raise LockTimeout()
            return False
        lk.owner = tid
        self.emit(tid, 'acquire')
        return True

    def on_release(self):
        tid = self.tid()
        lk = self.lock
        if tid in self.aborted:
            if lk.owner == tid and lk._l.locked():
                lk.owner = 0
                lk._l.release()
            return
        gated = self._gated(tid)
        if gated:
            self._post(tid, ('release', None))
            self._grant(tid)
        self.emit(tid, 'release')          # logged while the lock is still held
        lk.owner = 0
        try:
            lk._l.release()
        except RuntimeError:
            if gated:
                self.gate.acks.put((tid, 'release_unlocked'))
            raise
        if gated:
            self.gate.acks.put((tid, None))


_installed_world: World | None = None


def install(world: World) -> None:
    global _installed_world
    import elementpath.collations as C
    locale._setlocale = world.c_setlocale
    C._locale_collate_lock = world.lock
    _installed_world = world


def uninstall() -> None:
    global _installed_world
    import elementpath.collations as C
    locale._setlocale = _REAL
    C._locale_collate_lock = threading.Lock()
    _REAL(locale.LC_COLLATE, 'C')
    _installed_world = None


_ROOT = None
_SEL: dict = {}


def root():
    global _ROOT
    if _ROOT is None:
        import xml.etree.ElementTree as ET
        _ROOT = ET.XML('<r><a>x</a><a>y</a><b/></r>')
    return _ROOT


def selector(expr: str):
    """Compiled once per process, OUTSIDE any gated section (XPath2Parser.__init__ reads LC_COLLATE)."""
    s = _SEL.get(expr)
    if s is None:
        from elementpath import Selector
        from elementpath.xpath31 import XPath31Parser
        w = _installed_world
        saved = None
        if w is not None and w.mode == 'sim':      # parsers are built in a C-locale process
            saved, w.cell = w.cell, 'C'
        try:
            s = Selector(expr, parser=XPath31Parser)
        finally:
            if saved is not None:
                w.cell = saved
        if len(_SEL) > 5000:
            _SEL.clear()
        _SEL[expr] = s
    return s


def self_test() -> None:
    """The monkeypatches must be effective, else nothing below means anything."""
    log: list = []
    w = World('sim', installed={'de_DE.UTF-8'}, log=log)
    w.register(1)
    install(w)
    try:
        if locale.setlocale(locale.LC_COLLATE, 'de_DE.UTF-8') != 'de_DE.UTF-8' or \
                locale.getlocale(locale.LC_COLLATE) != ('de_DE', 'UTF-8') or _REAL(locale.LC_COLLATE, None) != 'C':
            raise tla.MachineryError('scripted locale._setlocale is not effective')
        locale.setlocale(locale.LC_COLLATE, 'C')
        sel = selector("compare('a','b',$c)")     # a constant call would be evaluated by the parser
        del log[:]
        r = sel.select(root(), variables={'c': 'de_DE.UTF-8'})
        evs = [(e['e'], e['v'], e['r']) for e in log]
        # only that the wrappers SEE the code (what the code does with them is judged by the check proper)
        if r != -1 or ('acquire', '', '') not in evs or ('set', 'L1', 'ok') not in evs:
            raise tla.MachineryError(f'instrumentation_missing: compare() under the instrumented lock gave {r!r} {evs}')
    finally:
        uninstall()


# ----------------------------------------------------------------------------------------------
# binding A: TLC behaviours -> real threads under a gate

def run_idx(frs) -> int:
    """Index of the frame that executes (the last one that is not suspended), -1 if none."""
    for i in range(len(frs) - 1, -1, -1):
        if frs[i]['pc'] != 'susp':
            return i
    return -1


def is_child(frs, idx) -> bool:
    return idx > 0 and frs[idx - 1]['k'] in ('lazy', 'rec') and frs[idx - 1]['kid'] == 'run'


def acting_frame(S, act, args):
    """(index, frame record) of the frame an action of thread args[0] works on in state S."""
    frs = S['frames'][args[0] - 1]
    if act in ('Call',):
        return None, None
    if act == 'CallArg':
        return len(frs) - 1, frs[-1]
    if act in ('Resume', 'Abandon'):
        return args[1] - 1, frs[args[1] - 1]
    r = run_idx(frs)
    if r < 0:
        r = len(frs) - 1          # ResumeLazy / Unwind of a suspended lazy frame
    return r, frs[r]


def expected_posts(S, act, args) -> list[tuple]:
    """What the real thread must do (hook calls, driver-visible outcomes) during one spec action."""
    idx, f = acting_frame(S, act, args)
    if act in ('Call', 'Resume') or act in SILENT:
        return []
    if act in ('LongHold', 'EnterWithoutLock'):
        return [('probe_timeout', act)]
    frs = S['frames'][args[0] - 1]
    child = is_child(frs, idx)
    leave = [('set', f['saved'], 'ok'), ('release',)] if f['hold'] else []
    if act == 'Acquire':
        return [('acquire', f['c'])]
    if act == 'ReadCurrent':
        return [('query',)]
    if act == 'SetLocale':
        return [('set', LOC[f['c']], args[1])]
    if act == 'Fallback':
        return [('set', 'FB', args[1])]
    if act == 'RaiseFromEnter':
        return [('release',)] + ([] if child else [('drv', 'raised')])
    if act in ('LeakRaise', 'ArgError'):
        return [] if child else [('drv', 'raised')]
    if act == 'Exit':
        return leave + ([] if child else [('drv', 'returned')])
    if act == 'ExitGen':
        return leave
    if act == 'Unwind':
        return leave + ([] if child else [('drv', 'raised')])
    if act in ('YieldHolding', 'Yield'):
        return [('drv', 'yielded')]
    if act == 'Return':
        return [('drv', 'returned')]
    if act == 'Abandon':
        return leave + [('drv', 'closed')]
    raise tla.MachineryError(f'no binding for action {act}')


def post_matches(exp: tuple, got: tuple) -> bool:
    if exp[0] != got[0]:
        return False
    if exp[0] == 'acquire':
        if len(exp) > 2 and exp[2] and len(got) > 3 and got[3]:
            return got[3] == exp[2]          # the very CollationManager the behaviour means
        return got[1] is None or got[1] == exp[1]
    if exp[0] == 'set':
        return got[1] == exp[1]
    if exp[0] == 'drv':
        return got[1] == exp[1]
    return True


def render_frames(finfo: dict, mode: str, variety: int) -> None:
    """Choose the concrete XPath expression of every top-level frame (dumb rendering of the
    abstract frame: call-site class, collation class, number of items, how it ends).
    Collations are passed as variables: a constant call would be evaluated by the parser."""
    def plain(fi, fid, vars_, sites=None):
        if 'Unwind' in fi['acts']:
            tpl = ERROR_SITES[(variety + fid) % len(ERROR_SITES)]
        else:
            sites = sites or PLAIN_SITES
            tpl = sites[(variety + fid) % len(sites)]
        us = coll_uris(fi['c'], mode)
        vars_[f'c{fid}'] = us[(variety + fid) % len(us)]
        return tpl.replace('{C}', f'$c{fid}')

    for fid, fi in finfo.items():
        if fi['child']:
            continue
        vars_: dict[str, str] = {}
        us = coll_uris(fi['c'], mode)
        vars_[f'c{fid}'] = us[(variety + fid) % len(us)]
        C = f'$c{fid}'
        if fi['k'] == 'plain':
            fi['expr'] = plain(fi, fid, vars_)
        elif fi['k'] == 'gen':
            n = fi['yields']
            ended = [a for a in fi['acts'] if a in ('Exit', 'Return', 'Unwind', 'Abandon', 'ArgError')]
            site = GEN_SITES[(variety + fid) % 2]
            more = 0 if ended and ended[-1] in ('Exit', 'Return') else 1
            if site == 'distinct-values':
                items = [q(f'a{j}') for j in range(n + more)]
            else:
                items = [q('a')] * (n + more)
            seq = '(' + ', '.join(items) + ')'
            if ended and ended[-1] in ('Unwind', 'ArgError'):     # n items, then an error raised lazily by the operand
                item = "concat('a', string($i))" if site == 'distinct-values' else "'a'"
                seq = f'for $i in 1 to {n + 1} return if ($i = {n + 1}) then error() else {item}'   # '(E)' is eager
            fi['expr'] = f'distinct-values({seq}, {C})' if site == 'distinct-values' else f"index-of({seq}, 'a', {C})"
        elif fi['k'] == 'rec':
            fi['expr'] = REC_SITES[(variety + fid) % len(REC_SITES)].replace('{C}', C)
        else:  # lazy
            kid = finfo.get(fi.get('kid'))
            tpl = LAZY_SITES[(variety + fid) % len(LAZY_SITES)]
            if kid is None:
                kid = {'c': 'cp', 'acts': [], 'child': True}
                kfid = fid + 1000
            else:
                kfid = fi['kid']
            if '{S}' in tpl and 'Unwind' not in kid['acts']:
                fi['expr'] = tpl.replace('{S}', plain(kid, kfid, vars_, STRING_SITES)).replace('{C}', C)
            else:
                fi['expr'] = LAZY_SITES[0].replace('{E}', plain(kid, kfid, vars_)).replace('{C}', C)
        fi['vars'] = vars_
        fi['uri'] = vars_[f'c{fid}']
        if fi['k'] in ('lazy', 'rec') and finfo.get(fi.get('kid')) is not None:
            finfo[fi['kid']]['uri'] = vars_.get(f'c{fi["kid"]}') if fi['k'] == 'lazy' else fi['uri']


def build_plan(states, path, mode: str, variety: int) -> dict:
    """One TLC behaviour -> per-step expectations + the API calls of every thread."""
    S0 = states[path[0][0]]
    n = len(S0['frames'])
    mir: dict[int, list[int]] = {t: [] for t in range(1, n + 1)}
    finfo: dict[int, dict] = {}
    steps = []
    nfid = 0
    for (src, dst, act, args) in path:
        S, D = states[src], states[dst]
        t = args[0]
        frs = S['frames'][t - 1]
        step = {'t': t, 'act': act, 'args': list(args), 'posts': [list(p) for p in expected_posts(S, act, args)],
                'cmd': None, 'owner': D['owner'], 'lc': D['lc']}
        if act == 'Call':
            nfid += 1
            mir[t].append(nfid)
            finfo[nfid] = {'t': t, 'c': args[1], 'k': args[2], 'child': False, 'acts': [], 'yields': 0}
            step['cmd'] = ['call', nfid]
        elif act in ('CallArg', 'ReenterHolding'):
            nfid += 1
            finfo[mir[t][-1]]['kid'] = nfid
            mir[t].append(nfid)
            finfo[nfid] = {'t': t, 'c': args[1] if act == 'CallArg' else finfo[mir[t][-2]]['c'], 'k': 'plain',
                           'child': True, 'acts': [], 'yields': 0}
        else:
            idx, f = acting_frame(S, act, args)
            fid = mir[t][idx]
            step['fid'] = fid
            finfo[fid]['acts'].append(act)
            if act in ('Yield', 'YieldHolding'):
                finfo[fid]['yields'] += 1
            if act == 'Resume':
                step['cmd'] = ['next', fid]
            elif act == 'Abandon':
                step['cmd'] = ['close', fid]
            if len(D['frames'][t - 1]) < len(frs):
                mir[t].pop(idx)
        steps.append(step)
    render_frames(finfo, mode, variety)
    for st in steps:
        if st['cmd'] and st['cmd'][0] == 'call':
            fi = finfo[st['cmd'][1]]
            st['cmd'] += [fi['k'], fi['expr'], fi['vars']]
        if st['act'] == 'Acquire':
            st['posts'][0].append(finfo[st['fid']].get('uri'))
        if st['act'] == 'LongHold' and 'ArgError' in finfo[st['fid']]['acts']:
            st['posts'] = []        # this call ends with an operand error before it ever asks for the lock
    # what the threads are doing when the behaviour ends
    Dn = states[path[-1][1]]
    waits = {}
    for t in range(1, n + 1):
        frs = Dn['frames'][t - 1]
        r = run_idx(frs)
        if r >= 0 and frs[r]['pc'] == 'start' and LOC[frs[r]['c']] is not None:
            waits[t] = 'self' if Dn['owner'] == t else 'other'
    inst = sorted(S0['inst'])
    return {'mode': mode, 'threads': n, 'inst': inst, 'lc0': S0['lc0'], 'steps': steps, 'final_waits': waits,
            'exprs': {fid: fi.get('expr') for fid, fi in finfo.items() if not fi['child']}}


def _driver(world: World, tid: int, cmdq: queue.Queue, sels: dict) -> None:
    world.register(tid)
    gate = world.gate
    post = gate.posts[tid].put
    iters: dict[int, object] = {}

    def step(it):
        try:
            next(it)
        except StopIteration:
            post(('drv', 'returned'))
        else:
            post(('drv', 'yielded'))

    post(('drv', 'ready'))
    try:
        while True:
            cmd = cmdq.get()
            if cmd[0] == 'quit':
                break
            try:
                if cmd[0] == 'call':
                    _, fid, kind, expr, vars_ = cmd
                    sel = sels[expr]
                    if kind == 'gen':
                        it = iters[fid] = sel.iter_select(root(), variables=dict(vars_))
                        step(it)
                    else:
                        sel.select(root(), variables=dict(vars_))
                        post(('drv', 'returned'))
                elif cmd[0] == 'next':
                    step(iters[cmd[1]])
                elif cmd[0] == 'close':
                    iters.pop(cmd[1]).close()
                    post(('drv', 'closed'))
            except ReplayAbort:
                break
            except BaseException as e:    # an outcome, not a crash
                post(('drv', 'raised', type(e).__name__, getattr(e, 'code', None)))
    finally:
        world.aborted.add(tid)
        for it in list(iters.values()):
            try:
                it.close()
            except BaseException:
                pass
        iters.clear()


def execute_plan(plan: dict, timeout: float = 10.0) -> dict:
    """Run one behaviour on the real code.  Returns {'kind': 'conform', ...} or the first divergence."""
    mode = plan['mode']
    names = LOCALE_NAME[mode]
    tids = list(range(1, plan['threads'] + 1))
    gate = Gate(tids)
    installed = {names[a] for a in plan['inst']} | ({'C.utf8'} if mode == 'real' and 'L1' in plan['inst'] else set())
    world = World(mode, installed=installed, init=names[plan['lc0']], gate=gate, log=[])
    # compile outside the gated section; the token trees live exactly as long as this replay: a cached
    # tree can keep a suspended generator of an earlier evaluation alive, whose late close would run
    # __exit__ against the world of a LATER replay
    from elementpath import Selector
    from elementpath.xpath31 import XPath31Parser
    install(world)
    gate.free = True
    sels: dict = {}
    saved_cell, world.cell = world.cell, ('C' if mode == 'sim' else world.cell)
    try:
        for st in plan['steps']:
            if st['cmd'] and st['cmd'][0] == 'call' and st['cmd'][3] not in sels:
                sels[st['cmd'][3]] = Selector(st['cmd'][3], parser=XPath31Parser)
    finally:
        world.cell = saved_cell
        gate.free = False
    cmdq = {t: queue.Queue() for t in tids}
    threads = [threading.Thread(target=_driver, args=(world, t, cmdq[t], sels), daemon=True) for t in tids]
    for th in threads:
        th.start()
    result: dict = {'kind': 'conform'}
    matched_steps = 0
    try:
        for t in tids:
            gate.posts[t].get(timeout=timeout)          # ready
        for si, st in enumerate(plan['steps']):
            t = st['t']
            if st['cmd']:
                cmdq[t].put(tuple(st['cmd']))
            done_posts = []
            for exp in st['posts']:
                exp = tuple(exp)
                if exp[0] == 'probe_timeout':
                    # time passes while another thread holds the lock: whatever time-out the pending acquire()
                    # of thread t has, it elapses now (virtual clock) - and t must still not be inside
                    try:
                        got = gate.posts[t].get(timeout=timeout)
                    except queue.Empty:
                        got = ('hung',)
                    if got[0] != 'acquire':
                        result = {'kind': 'diverge', 'step': si, 't': t, 'expected': ['acquire(pending)'],
                                  'observed': list(got), 'matched': done_posts, 'what': 'event'}
                        break
                    if not got[4]:                      # a plain blocking acquire: it waits, however long
                        gate.posts[t].put(got)
                        if exp[1] == 'EnterWithoutLock':
                            result = {'kind': 'diverge', 'step': si, 't': t, 'expected': ['acquire(timed)'],
                                      'observed': ['acquire_blocks'], 'matched': done_posts, 'what': 'event'}
                            break
                        continue
                    gate.grants[t].put('timeout')
                    try:
                        gate.acks.get(timeout=timeout)
                    except queue.Empty:
                        pass
                    if exp[1] == 'LongHold':
                        try:
                            nxt_ = gate.posts[t].get(timeout=timeout)
                        except queue.Empty:
                            nxt_ = ('hung',)
                        if nxt_[0] == 'acquire':
                            gate.posts[t].put(nxt_)        # it asks again: still outside, as the model says
                        else:
                            result = {'kind': 'diverge', 'step': si, 't': t,
                                      'expected': ['still waiting for the lock (acquire timed out)'],
                                      'observed': list(nxt_), 'matched': done_posts, 'what': 'mutex'}
                            break
                    continue
                try:
                    got = gate.posts[t].get(timeout=timeout)
                except queue.Empty:
                    got = ('hung',)
                if not post_matches(exp, got):
                    result = {'kind': 'diverge', 'step': si, 't': t, 'expected': list(exp), 'observed': list(got),
                              'matched': done_posts, 'what': 'event'}
                    break
                if exp[0] != 'drv':
                    gate.grants[t].put(exp[2] if exp[0] == 'set' else 'go')
                    try:
                        _, err = gate.acks.get(timeout=timeout)
                    except queue.Empty:
                        err = 'no_ack'
                    if err:
                        result = {'kind': 'diverge', 'step': si, 't': t, 'expected': list(exp), 'observed': [err],
                                  'matched': done_posts, 'what': 'effect'}
                        break
                done_posts.append(list(exp))
            if result['kind'] != 'conform':
                break
            obs_owner = world.lock.owner if world.lock.locked() else 0
            obs_lc = world.abstract(world.current())
            if (obs_owner, obs_lc) != (st['owner'], st['lc']):
                result = {'kind': 'diverge', 'step': si, 't': t, 'expected': ['state', st['owner'], st['lc']],
                          'observed': ['state', obs_owner, obs_lc], 'matched': done_posts, 'what': 'state'}
                break
            matched_steps += 1
        if result['kind'] == 'conform':
            waits = {}
            for t in tids:
                want = plan['final_waits'].get(t) or plan['final_waits'].get(str(t))
                if want:
                    try:
                        got = gate.posts[t].get(timeout=timeout)
                    except queue.Empty:
                        got = ('hung',)
                    if got[0] != 'acquire':
                        result = {'kind': 'diverge', 'step': len(plan['steps']), 't': t,
                                  'expected': ['acquire(pending)', want], 'observed': list(got), 'matched': [],
                                  'what': 'final'}
                        break
                    waits[t] = 'self' if got[2] else 'other'
                    if waits[t] != want:
                        result = {'kind': 'diverge', 'step': len(plan['steps']), 't': t,
                                  'expected': ['waits_on', want], 'observed': ['waits_on', waits[t]], 'matched': [],
                                  'what': 'final'}
                        break
                else:
                    try:
                        got = gate.posts[t].get_nowait()
                        result = {'kind': 'diverge', 'step': len(plan['steps']), 't': t, 'expected': ['idle'],
                                  'observed': list(got), 'matched': [], 'what': 'final'}
                        break
                    except queue.Empty:
                        pass
            if result['kind'] == 'conform':
                result['waits'] = waits
                result['locked_at_end'] = world.lock.locked()
    finally:
        # tear down: everything that is gated is aborted, drivers quit
        for t in tids:
            gate.grants[t].put(ABORT)
            cmdq[t].put(('quit',))
        for th in threads:
            th.join(timeout=timeout)
        gate.free = True
        result['threads_left'] = sum(1 for th in threads if th.is_alive())
        world.aborted.add(0)          # whatever is finalised from here on (main thread) must not act
        sels.clear()
        del threads
        uninstall()
    result['matched_steps'] = matched_steps
    result['events'] = len(world.log)
    if world.real_mismatch and result['kind'] == 'conform':
        result = {'kind': 'machinery', 'what': world.real_mismatch}
    return result


# -- path cover -----------------------------------------------------------------------------------

class G:
    """A loaded TLC graph with the indexes the binding needs."""

    def __init__(self, graph: tla.Graph, variant: str):
        self.variant = variant
        self.states = graph.states
        self.init = graph.init
        self.edges = graph.edges
        self.out: dict[int, list[int]] = {s: [] for s in graph.states}
        for ei, (s, d, a, args) in enumerate(graph.edges):
            self.out[s].append(ei)
        self.index = {st: sid for sid, st in graph.states.items()}
        self._proj: dict[int, dict] = {}

    @staticmethod
    def key(st, t):
        return (st['inst'], st['lc0'], st['lc'], st['owner'], st['frames'][t - 1])

    @staticmethod
    def key_run(st, t):
        frs = st['frames'][t - 1]
        r = run_idx(frs)
        return (st['inst'], st['lc0'], st['lc'], st['owner'], frs[r] if r >= 0 else None, len(frs) - 1 - r if r >= 0 else -1)

    def proj_run(self, t):
        p = self._proj.get(('run', t))
        if p is None:
            p = self._proj[('run', t)] = {}
            for sid, st in self.states.items():
                p.setdefault(G.key_run(st, t), sid)
        return p

    def proj(self, t):
        p = self._proj.get(t)
        if p is None:
            p = self._proj[t] = {}
            for sid, st in self.states.items():
                p.setdefault(G.key(st, t), sid)
        return p


def cover_paths(g: G, keep, rnd: random.Random, limit: int | None = None) -> tuple[list[list[int]], int]:
    """Behaviours (lists of edge indexes, init -> terminal) that together contain every kept edge."""
    out = {s: [ei for ei in eis if keep(g.edges[ei]) and g.edges[ei][0] != g.edges[ei][1]] for s, eis in g.out.items()}
    # stuttering actions (LongHold: time passes, nothing may change) are visited where a behaviour passes by
    loops = {s: [ei for ei in eis if keep(g.edges[ei]) and g.edges[ei][0] == g.edges[ei][1]] for s, eis in g.out.items()}
    # BFS tree from the initial states
    pred: dict[int, int | None] = {s: None for s in g.init}
    order = list(g.init)
    dq = collections.deque(g.init)
    while dq:
        s = dq.popleft()
        for ei in out[s]:
            d = g.edges[ei][1]
            if d not in pred:
                pred[d] = ei
                order.append(d)
                dq.append(d)
    # shortest way to a terminal state (reverse BFS); the graphs are acyclic: every action makes progress
    rev: dict[int, list[int]] = {s: [] for s in order}
    for s in order:
        for ei in out[s]:
            rev[g.edges[ei][1]].append(ei)
    nxt: dict[int, int] = {}
    done = {s for s in order if not out[s]}
    dq = collections.deque(done)
    while dq:
        d = dq.popleft()
        for ei in rev[d]:
            s = g.edges[ei][0]
            if s not in done:
                done.add(s)
                nxt[s] = ei
                dq.append(s)
    if len(done) != len(order):
        raise tla.MachineryError('CollationLock graph: a state cannot reach a terminal state')
    uncovered = {ei for s in order for ei in out[s]} | {ei for s in order for ei in loops[s]}
    total = len(uncovered)
    paths = []

    def with_loops(path):
        res = []
        for ei in path:
            res.append(ei)
            for li in loops[g.edges[ei][1]]:
                if li in uncovered:
                    uncovered.discard(li)
                    res.append(li)
        return res

    for s in order:
        for e0 in out[s]:
            if e0 not in uncovered:
                continue
            pre = []
            x = s
            while pred[x] is not None:
                pre.append(pred[x])
                x = g.edges[pred[x]][0]
            pre.reverse()
            path = pre + [e0]
            uncovered.discard(e0)
            x = g.edges[e0][1]
            while out[x]:
                fresh = [ei for ei in out[x] if ei in uncovered]
                ei = rnd.choice(fresh) if fresh else nxt[x]
                path.append(ei)
                uncovered.discard(ei)
                x = g.edges[ei][1]
            for ei in pre:
                uncovered.discard(ei)
            paths.append(with_loops(path))
            if limit and len(paths) >= limit:
                return paths, total - len(uncovered)
    return paths, total - len(uncovered)


# -- replay workers ---------------------------------------------------------------------------------

_GRAPHS: dict[str, G] = {}


def classify(g: G, other: G | None, path_edges, res: dict) -> str:
    """Name the action of the OTHER variant that explains a divergence, else 'unmodelled'."""
    if other is not None and res['what'] == 'mutex':
        # the thread went on after its acquire() timed out: the pinned variant with TimedAcquire has a name for it
        t = res['t']
        st = g.states[g.edges[path_edges[res['step']]][0]]
        sid = other.index.get(st)
        if sid is None:
            sid = other.proj(t).get(G.key(st, t))
        if sid is not None and any(other.edges[ei][2] == 'EnterWithoutLock' and other.edges[ei][3][0] == t
                                   for ei in other.out[sid]):
            return 'EnterWithoutLock'
        return 'unmodelled'
    if other is None or res['what'] not in ('event', 'final'):
        return 'unmodelled'
    t = res['t']
    observed = tuple(res['observed'])
    # the divergence may have happened during earlier steps of the thread that have nothing observable
    # (e.g. LeakRaise of an operand frame): try those source states as well
    if res['what'] == 'final':      # the thread did something instead of waiting for the lock
        r = _explain(g, other, g.edges[path_edges[-1]][1], t, [], observed)
        if r != 'unmodelled':
            return r
        si = len(path_edges)
        cands = []
    else:
        si = res['step']
        cands = [(si, [tuple(p) for p in res['matched']])]
    for sj in range(si - 1, -1, -1):
        _, _, a, x = g.edges[path_edges[sj]]
        if x[0] != t:
            continue
        if expected_posts(g.states[g.edges[path_edges[sj]][0]], a, x):
            break
        cands.append((sj, []))
    for sj, matched in cands:
        src = g.edges[path_edges[sj]][0]
        r = _explain(g, other, src, t, matched, observed)
        if r != 'unmodelled':
            return r
    return 'unmodelled'


def _explain(g: G, other: G, src: int, t: int, matched: list, observed: tuple) -> str:
    # what thread t does next depends on the shared state and on its own frames only; the other
    # threads may be in states that only one variant has
    st = g.states[src]
    sid = other.index.get(st)
    if sid is None:
        sid = other.proj(t).get(G.key(st, t))
    if sid is None:
        # a lazy frame that is past its __enter__ with the operand still to come exists in the pinned
        # variant only; when the operand has no observable effect the same events mean "operand done"
        frs = tuple(tla.FrozenDict(dict(f, kid='done')) if f['k'] == 'lazy' and f['kid'] == 'todo'
                    and f['pc'] not in ('start', 'susp') else f for f in st['frames'][t - 1])
        sid = other.proj(t).get((st['inst'], st['lc0'], st['lc'], st['owner'], frs))
    if sid is None:
        # the thread's OTHER (suspended) frames may be in states only one variant has: what the running
        # frame does next in __enter__/__exit__ depends on the shared state and on itself
        sid = other.proj_run(t).get(G.key_run(st, t))
    if sid is None:
        return 'unmodelled'
    seen = {sid: None}
    dq = collections.deque([sid])
    while dq:
        s = dq.popleft()
        if not matched and observed[0] == 'acquire' and len(observed) > 2 and observed[2]:
            # the thread asks for the lock it holds: in the model that is a state without a successor
            S = other.states[s]
            frs = S['frames'][t - 1]
            r = run_idx(frs)
            if r >= 0 and frs[r]['pc'] == 'start' and LOC[frs[r]['c']] is not None and S['owner'] == t:
                return seen[s] or 'SelfWait'
        for ei in other.out[s]:
            _, d, act, args = other.edges[ei]
            if args[0] != t:
                continue
            posts = expected_posts(other.states[s], act, args)
            via = seen[s] or (act if act in DEVIATIONS else None)
            if not posts:                 # nothing observable: look further
                if d not in seen:
                    seen[d] = via
                    dq.append(d)
                continue
            k = len(matched)
            if len(posts) > k and all(post_matches(p, m) for p, m in zip(posts[:k], matched)) \
                    and post_matches(posts[k], observed):
                return via or act          # the named deviation on the way, else the action itself
    return 'unmodelled'


def replay_job(job):
    """(variant, mode, variety, [edge indexes]) -> verdict record."""
    variant, mode, variety, pe = job
    g = _GRAPHS[variant]
    other = _GRAPHS.get('pinned' if variant == 'property' else 'property')
    path = [g.edges[ei] for ei in pe]
    plan = build_plan(g.states, path, mode, variety)
    res = execute_plan(plan)
    if res['kind'] == 'diverge' and res['observed'] and res['observed'][0] in ('hung', 'no_ack'):
        res = execute_plan(plan, timeout=90.0)      # a loaded machine is not a hang: ask again, patiently
    acts = [g.edges[ei][2] for ei in pe]
    devs = []
    for k, (_, _, a, x) in enumerate(path):
        if a not in DEVIATIONS:
            continue
        if a == 'LeaveHolding':      # not observable (and harmless) when the operand takes no lock
            nxt = [y for (_, _, b, y) in path[k + 1:] if b == 'CallArg' and y[0] == x[0]]
            if nxt and LOC[nxt[0][1]] is None:
                continue
        devs.append(a)
    fault = 'crash' if any(a == 'SetLocale' and x[1] == 'crash' for (_, _, a, x) in path) else \
        ('fail' if any(a in ('SetLocale', 'Fallback') and x[1] == 'fail' for (_, _, a, x) in path) else 'none')
    Dn = g.states[path[-1][1]]
    rec = {'variant': variant, 'mode': mode, 'len': len(pe), 'matched': res.get('matched_steps', 0),
           'result': res['kind'], 'devs': devs, 'verdict': 'pass', 'events': res.get('events', 0),
           'threads_left': res.get('threads_left', 0)}
    if res['kind'] == 'machinery':
        rec['verdict'] = 'machinery'
        rec['what'] = res['what']
        return rec
    leak = Dn['owner'] != 0 and not any(f['hold'] for f in Dn['frames'][Dn['owner'] - 1])
    selfw = any(v == 'self' for v in plan['final_waits'].values())
    blocked = any(v == 'other' for v in plan['final_waits'].values())
    if res['kind'] == 'conform':
        if variant == 'pinned' and devs:
            rec['verdict'] = 'fail'
            cons = '+'.join(x for x, on in (('lock_leak', leak), ('self_wait', selfw), ('blocked', blocked)) if on) or 'none'
            rec['features'] = {'part': 'replay', 'deviation': devs[0], 'consequence': cons, 'threads': plan['threads'],
                               'fault': fault}
            rec['expected'] = 'the property variant of CollationLock (no %s)' % devs[0]
            rec['observed'] = {'behaviour_reproduced': acts, 'waits': res.get('waits'), 'locked_at_end': res.get('locked_at_end')}
    else:
        cls = classify(g, other, pe, res)
        st = plan['steps'][res['step']] if res['step'] < len(plan['steps']) else {'act': 'end', 'args': []}
        if variant == 'pinned' and res['observed'] == ['acquire_blocks']:
            cls = 'LongHold'
        if variant == 'pinned' and cls != 'unmodelled':
            rec['verdict'] = 'pass'
            rec['note'] = 'pinned_model_outdated'       # the code does what the property variant does here
        elif variant == 'property' and cls in DEVIATIONS:
            rec['verdict'] = 'fail'
            rec['features'] = {'part': 'replay', 'deviation': cls, 'consequence': 'diverges', 'threads': plan['threads'],
                               'fault': fault}
            rec['expected'] = {'action': st['act'], 'event': res['expected']}
            rec['observed'] = {'event': res['observed'], 'explained_by_pinned_action': cls}
        else:
            rec['verdict'] = 'fail'
            rec['features'] = {'part': 'replay', 'deviation': 'unmodelled', 'action': st['act'],
                               'expected_event': str(res['expected'][0]), 'observed_event': str(res['observed'][0]),
                               'what': res['what'], 'variant': variant}
            rec['expected'] = {'action': st['act'], 'event': res['expected']}
            rec['observed'] = {'event': res['observed'], 'after': res['matched']}
    if rec['verdict'] == 'fail':
        rec['case'] = {'kind': 'plan', 'plan': plan, 'actions': [f'{a}{tuple(x)}' for (_, _, a, x) in path]}
    if variety % 97 == 0 or rec['verdict'] == 'fail':
        rec['sample'] = {'variant': variant, 'mode': mode, 'inst': plan['inst'], 'lc0': plan['lc0'],
                         'actions': [f'{a}{tuple(x)}' for (_, _, a, x) in path], 'exprs': plan['exprs'],
                         'result': res['kind']}
    return rec


def replay_chunk(jobs):
    return [(replay_job(j), j) for j in jobs]


# ----------------------------------------------------------------------------------------------
# binding B + API-level observables: monitored public evaluations, logged, validated by TLC

BAD_URI = 'http://example.com/no-such-collation'      # not a UCA URI: taken as a locale name, no fallback
for _m in ABSTRACT.values():
    _m[BAD_URI] = 'L2'                                  # used only where L2 is not installed

SINGLE = [
    "compare('a','b',{A})", "contains('abc','b',{A})", "starts-with('abc','a',{A})", "ends-with('abc','c',{A})",
    "substring-before('abc','b',{A})", "substring-after('abc','b',{A})", "max(('a','b'),{A})", "min(('b','a'),{A})",
    "deep-equal(('a','b'),('a','b'),{A})", "distinct-values(('a','b','a'),{A})", "index-of(('a','b','a'),'a',{A})",
    "contains-token('a b','a',{A})", "collation-key('a',{A})", "sort(('b','a','c'),{A})",
    "contains-token((1),'a',{A})", "deep-equal((abs#1),(1),{A})", "max(('a',1),{A})",
    "distinct-values(('a','b','c'),{A})[1]", "exists(index-of(('a','a'),'a',{A}))",
    "subsequence(distinct-values(('a','b','c'),{A}),2,1)", "count(distinct-values(('a','b'),{A}))",
    "(compare('a','b',{A}), error())", "distinct-values(for $i in 1 to 2 return if ($i = 2) then error() else 'a', {A})",
]
PAIR = [
    "for $x in distinct-values(('a','b'),{A}) return compare($x,'a',{B})",
    "for $x in index-of(('a','b','a'),'a',{A}) return contains('abc','b',{B})",
    "some $x in distinct-values(('a','b'),{A}) satisfies compare($x,'a',{B}) eq 0",
    "deep-equal(compare('a','b',{A}), -1, {B})",
    "deep-equal(distinct-values(('a','b'),{A}), ('a','b'), {B})",
    "index-of(distinct-values(('a','b'),{A}), 'a', {B})",
    "contains-token(distinct-values(('a b','c'),{A}), 'a', {B})",
    "for-each-pair(distinct-values(('a','b'),{A}), index-of(('a','a'),'a',{B}), function($a,$b){{$a}})",
    "(compare('a','b',{A}), compare('a','b',{B}))",
    "sort(('b','a'),{A}, function($x){{compare($x,'a',{B})}})",
    "max(distinct-values(('a','b'),{A}), {B})",
    "compare(substring-before('abc','b',{A}), 'a', {B})",
    "distinct-values(distinct-values(('a','b'),{A}), {B})",
]
STRESS_POOL = SINGLE[:14] + [
    "for $x in distinct-values(('a','b'),{A}) return compare($x,'a',{CP})",
    "deep-equal(distinct-values(('a','b'),{A}), ('a','b'))",
    "(compare('a','b',{A}), compare('a','b',{A}))",
]


class _Alarm(BaseException):
    pass


def _on_alarm(sig, frm):
    raise _Alarm()


def snapshot_globals(world: World | None) -> dict:
    import elementpath.collations as C
    ctx = decimal.getcontext()
    return {
        'lc': world.current() if world is not None else _REAL(locale.LC_COLLATE, None),
        'locked': C._locale_collate_lock.locked(),
        'dec': (ctx.prec, ctx.rounding, ctx.Emin, ctx.Emax, ctx.capitals, ctx.clamp,
                tuple(sorted(str(k.__name__) for k, v in ctx.traps.items() if v))),
        'env': dict(os.environ),
        'rnd': hash(random.getstate()),        # the process-wide generator of the `random` module
    }


def diff_globals(a: dict, b: dict) -> list[str]:
    out = []
    if a['lc'] != b['lc']:
        out.append('lc_collate')
    if b['locked']:
        out.append('lock_held')
    if a['dec'] != b['dec']:
        out.append('decimal_context')
    if a['env'] != b['env']:
        out.append('environ')
    if a.get('rnd') != b.get('rnd'):
        out.append('random_state')
    return out


def outcome_of(fn) -> tuple:
    from elementpath import ElementPathError
    try:
        v = fn()
    except SelfDeadlock:
        return ('self_wait',)
    except LockTimeout:
        return ('hung',)
    except _Alarm:
        return ('hung_alarm',)
    except ElementPathError as e:
        return ('err', str(getattr(e, 'code', None)))
    except Exception as e:
        return ('escaped', type(e).__name__)
    if isinstance(v, list):
        v = [repr(x) for x in v]
    return ('value', repr(v)[:200])


def api_select(expr: str, variables: dict | None = None):
    import elementpath
    from elementpath.xpath31 import XPath31Parser
    kw = {'variables': variables} if variables else {}
    return elementpath.select(root(), expr, parser=XPath31Parser, **kw)


def logged_eval(w: World, tid: int, fn) -> tuple:
    """One public evaluation between a `begin` and an `end` record; after a self-wait / hang the
    harness (not the code) cleans up, which the trace records as `abort`."""
    w.emit(tid, 'begin')
    out = outcome_of(fn)
    if tid in w.aborted:
        w.emit(tid, 'abort')
        w.aborted.discard(tid)
        if w.lock.owner == tid and w.lock.locked():
            w.lock.owner = 0
            w.lock._l.release()
            if w.mode == 'sim':
                w.cell = w.init_name
            else:
                _REAL(locale.LC_COLLATE, w.init_name)
    w.emit(tid, 'end', r=out[0])
    return out


def make_world(mode: str, inst: list[str], lc0: str, log: list, tr: int, **kw) -> World:
    names = LOCALE_NAME[mode]
    init = 'C.utf8' if (mode == 'real' and lc0 == 'L1') else names[lc0]
    w = World(mode, installed={names[a] for a in inst}, init=init, log=log, tr=tr, **kw)
    w.init_name = init
    log.append({'tr': tr, 't': 0, 's': 0, 'e': 'reset', 'v': '', 'r': '', 'inst': list(inst), 'lc0': lc0})
    return w


def eval_case(case: dict, log: list, tr: int) -> dict:
    """One monitored evaluation + the later probes, in a fresh world.  API-level observables decide."""
    mode, inst, lc0 = case['mode'], case['inst'], case['lc0']
    w = make_world(mode, inst, lc0, log, tr)
    w.register(1)
    install(w)
    old = signal.signal(signal.SIGALRM, _on_alarm)
    try:
        if case.get('faults'):
            w.script.extend(case['faults'])
        before = snapshot_globals(w)
        probe_uri = PLAIN_NAME[mode]['L1']
        # the same probes in an untouched world tell what a later evaluation must answer
        base = case['_baseline']
        signal.alarm(20)
        out = logged_eval(w, 1, lambda: api_select(case['expr'], case.get('vars')))
        w.script.clear()
        after = snapshot_globals(w)
        obs = diff_globals(before, after)
        p2 = outcome_of(lambda: api_select('default-collation()'))
        p1 = logged_eval(w, 1, lambda: api_select("compare('a','B',$p)", {'p': probe_uri}))
        signal.alarm(0)
        if p1[0] in ('self_wait', 'hung', 'hung_alarm'):
            obs.append('later_hangs')
        elif p1 != base[0]:
            obs.append('later_answer')
        if p2 != base[1]:
            obs.append('default_collation')
        return {'tr': tr, 'outcome': out, 'obs': sorted(set(obs)), 'probe': p1, 'lc_after': after['lc']}
    finally:
        signal.alarm(0)
        signal.signal(signal.SIGALRM, old)
        uninstall()


def baseline(mode: str, inst: list[str], lc0: str) -> tuple:
    w = make_world(mode, inst, lc0, [], 0)
    w.register(1)
    install(w)
    try:
        p2 = outcome_of(lambda: api_select('default-collation()'))
        p1 = outcome_of(lambda: api_select("compare('a','B',$p)", {'p': PLAIN_NAME[mode]['L1']}))
        return (p1, p2)
    finally:
        uninstall()


def eval_cases(tier: str, seed: int) -> list[dict]:
    rnd = random.Random(seed)
    worlds = [('real', ['L1'], 'C'), ('sim', [], 'C'), ('sim', ['L1'], 'C'), ('sim', ['L1', 'FB'], 'C'),
              ('sim', ['L1', 'L2', 'FB'], 'C'), ('real', ['L1'], 'L1'), ('sim', ['L1'], 'L1')]
    classes = ['cp', 'L1', 'L2', 'U1', 'U2', 'UFB', 'bad']
    cases = []
    for (mode, inst, lc0) in worlds:
        def uri(c, k):
            if c == 'bad':
                return BAD_URI
            us = coll_uris(c, mode)
            return us[k % len(us)]
        cls = [c for c in classes if not (c == 'bad' and 'L2' in inst)]
        k = 0
        for tpl in SINGLE:
            for a in cls:
                k += 1
                if tier == 'quick' and (k % 3 if lc0 != 'C' else k % 2):
                    continue
                form = k % 2          # literal collation (the parser evaluates constant calls) or a variable
                if form:
                    cases.append({'mode': mode, 'inst': inst, 'lc0': lc0, 'tpl': tpl, 'A': a, 'B': None,
                                  'expr': tpl.replace('{A}', q(uri(a, k))), 'vars': None})
                else:
                    cases.append({'mode': mode, 'inst': inst, 'lc0': lc0, 'tpl': tpl, 'A': a, 'B': None,
                                  'expr': tpl.replace('{A}', '$a'), 'vars': {'a': uri(a, k)}})
        pairs = [(a, b) for a in cls for b in cls]
        for tpl in PAIR:
            sel = pairs if tier == 'thorough' else rnd.sample(pairs, 8 if lc0 == 'C' else 3)
            for (a, b) in sel:
                k += 1
                t2 = tpl.replace('{{', '{').replace('}}', '}')
                if k % 2:
                    cases.append({'mode': mode, 'inst': inst, 'lc0': lc0, 'tpl': tpl, 'A': a, 'B': b,
                                  'expr': t2.replace('{A}', q(uri(a, k))).replace('{B}', q(uri(b, k + 1))), 'vars': None})
                else:
                    cases.append({'mode': mode, 'inst': inst, 'lc0': lc0, 'tpl': tpl, 'A': a, 'B': b,
                                  'expr': t2.replace('{A}', '$a').replace('{B}', '$b'),
                                  'vars': {'a': uri(a, k), 'b': uri(b, k + 1)}})
        # a collation string with a NUL (only a variable can carry one): setlocale raises ValueError
        if 'L2' not in inst and lc0 == 'C':
            for nul in ('C\x00', f'{UCA}?lang=x\x00y', f'{UCA}?lang=x\x00y;fallback=no'):
                for tpl in (SINGLE[:3] if tier == 'quick' else SINGLE[:14]):
                    k += 1
                    cases.append({'mode': mode, 'inst': inst, 'lc0': lc0, 'tpl': tpl, 'A': 'NUL', 'B': None,
                                  'expr': tpl.replace('{A}', '$a'), 'vars': {'a': nul}})
        # transient faults: setlocale fails although the locale is installed (sim only)
        if mode == 'sim' and 'L1' in inst:
            for faults in (['fail'], ['fail', 'fail'], ['fail', 'ok']):
                for a in ('L1', 'U1'):
                    k += 1
                    cases.append({'mode': mode, 'inst': inst, 'lc0': lc0, 'tpl': SINGLE[k % 14], 'A': a, 'B': None,
                                  'expr': SINGLE[k % 14].replace('{A}', '$a'), 'vars': {'a': uri(a, k)}, 'faults': faults})
    return cases


# -- call-site sweep -------------------------------------------------------------------------------
# A call site of spec/CollationLock.tla is (function, which operands are consumed inside the critical
# section, whether the site calls itself for nested values): frame kinds plain / gen / lazy / rec.  Which
# kind a concrete (function, argument shape) pair is, is the implementation's business; the sweep therefore
# takes EVERY function of the live parser that has a collation parameter and gives it every shape.

F_AND_O_COLLATION_FUNCTIONS = ['fn:compare', 'fn:contains', 'fn:starts-with', 'fn:ends-with', 'fn:substring-before',
                               'fn:substring-after', 'fn:index-of', 'fn:distinct-values', 'fn:deep-equal', 'fn:min',
                               'fn:max', 'fn:sort', 'fn:contains-token', 'fn:collation-key', 'array:sort']
PROBE_URI = 'x-c19-probe-collation'
SHAPES = {   # name -> (text, frame kind of the property variant it exercises)
    'plain': ("'abc'", 'plain'),
    'seq': ("('b','a','abc')", 'plain'),
    'arr1': ("['b','a']", 'rec'),
    'arr2': ("[['b'],['a','c']]", 'rec'),
    'map1': ("map{'k':'a'}", 'rec'),
    'map2': ("map{'k':map{'j':'a'}}", 'rec'),
    'arrmap': ("[map{'k':['a','b']}]", 'rec'),
    'call': ("substring-before('abc','c',{C})", 'lazy'),
    'callseq': ("distinct-values(('b','a','b'),{C})", 'lazy'),
    'lazy': ("for $i in 1 to 3 return concat('a', string($i))", 'gen'),
    'nodes': ("/r/a/string()", 'gen'),
}


def _split_signature(sig: str) -> list[str]:
    """'function(xs:string?, function(item()) as item()*) as item()*' -> parameter types."""
    if not sig.startswith('function('):
        return []
    depth, start, out = 0, len('function('), []
    for i in range(len('function(') - 1, len(sig)):
        ch = sig[i]
        if ch == '(':
            depth += 1
        elif ch == ')':
            depth -= 1
            if depth == 0:
                if sig[start:i].strip():
                    out.append(sig[start:i].strip())
                break
        elif ch == ',' and depth == 1:
            out.append(sig[start:i].strip())
            start = i + 1
    return out


def _synth(ty: str) -> str:
    if ty.startswith('function('):
        return 'function($v){$v}'
    if ty.startswith('array('):
        return "['b','a']"
    if ty.startswith('map('):
        return "map{'k':'a'}"
    if ty.startswith('xs:string'):
        return "'abc'"
    if ty.startswith(('xs:anyAtomicType', 'item()')):
        return "('b','a')" if ty[-1] in '*+' else "'a'"
    if ty.startswith(('xs:integer', 'xs:double', 'xs:decimal', 'xs:numeric', 'numeric', 'xs:float')):
        return '1'
    if ty.startswith('xs:boolean'):
        return 'true()'
    if ty.startswith(('node()', 'element(', 'document-node(')):
        return '/r'
    return "'a'"


def discover_call_sites() -> tuple[list[dict], list[str]]:
    """Every (function, arity, position) of the live XPath 3.1 parser whose xs:string parameter reaches
    CollationManager: found by calling the function with a probe URI in that position."""
    import elementpath
    import elementpath.collations as C
    from elementpath.xpath31 import XPath31Parser
    seen: list = []
    orig = C.CollationManager.__init__

    def spy(self, collation, token=None):
        seen.append(collation)
        return orig(self, collation, token)

    w = World('sim', installed=())
    w.register(1)
    install(w)
    C.CollationManager.__init__ = spy
    old = signal.signal(signal.SIGALRM, _on_alarm)
    sites = []
    try:
        parser = XPath31Parser()
        for (qn, arity), sig in sorted(parser.function_signatures.items(), key=lambda kv: (str(kv[0][0]), kv[0][1])):
            name = getattr(qn, 'qname', None) or str(qn)
            params = _split_signature(sig)
            if len(params) != arity:
                continue
            for pos, ty in enumerate(params):
                if ty.rstrip('?') != 'xs:string':
                    continue
                args = [_synth(t) for t in params]
                args[pos] = q(PROBE_URI)
                del seen[:]
                signal.alarm(10)
                try:
                    elementpath.select(root(), f'{name}({", ".join(args)})', parser=XPath31Parser)
                except BaseException:
                    pass
                finally:
                    signal.alarm(0)
                w.aborted.clear()
                if w.lock.locked():
                    w.lock.owner = 0
                    w.lock._l.release()
                if PROBE_URI in seen:
                    sites.append({'fn': name, 'arity': arity, 'pos': pos, 'params': params})
    finally:
        signal.signal(signal.SIGALRM, old)
        C.CollationManager.__init__ = orig
        uninstall()
    missing = sorted(set(F_AND_O_COLLATION_FUNCTIONS) - {x['fn'] for x in sites})
    return sites, missing


def sweep_cases(sites: list[dict], tier: str) -> list[dict]:
    colls = [('real', ['L1'], 'cp', CODEPOINT), ('real', ['L1'], 'L1', 'C.utf8'),
             ('real', ['L1'], 'L2', 'de_DE.UTF-8'),                       # unsupported, no fallback
             ('real', ['L1'], 'U2', f'{UCA}?lang=de_DE'),                  # unsupported, fallback missing too
             ('sim', ['L1', 'FB'], 'U2', f'{UCA}?lang=it_IT'),            # unsupported, the fallback works
             ('real', ['L1'], 'NUL', 'C\x00')]                           # setlocale raises ValueError
    if tier == 'thorough':
        colls += [('sim', ['L1', 'L2', 'FB'], 'L2', 'it_IT.UTF-8'), ('sim', [], 'UFB', UCA),
                  ('real', ['L1'], 'U1', f'{UCA}?lang=C')]
    cases = []
    k = 0
    for site in sites:
        for shape, (text, kind) in SHAPES.items():
            for (mode, inst, cls, uri) in colls:
                if tier == 'quick' and mode == 'sim' and kind not in ('rec', 'lazy'):
                    continue
                if tier == 'quick' and cls == 'NUL' and shape not in ('plain', 'seq', 'arr1', 'call'):
                    continue
                k += 1
                args = []
                for i, ty in enumerate(site['params']):
                    if i == site['pos']:
                        args.append('$c')
                    elif i == 0 or (not ty.startswith('function(') and (ty[-1] in '*+' or ty.startswith('item()'))):
                        args.append(text.replace('{C}', '$c'))
                    else:
                        args.append(_synth(ty))
                expr = f'{site["fn"]}({", ".join(args)})'
                vars_ = {'c': uri}
                if k % 3 == 0 and cls != 'NUL':     # literal collation: the parser evaluates what is constant
                    expr, vars_ = expr.replace('$c', q(uri)), None
                cases.append({'mode': mode, 'inst': inst, 'lc0': 'C', 'tpl': f'{site["fn"]}#{site["arity"]}', 'A': cls,
                              'B': None, 'expr': expr, 'vars': vars_,
                              'sweep': {'fn': site['fn'], 'arity': site['arity'], 'shape': shape, 'kind': kind, 'coll': cls}})
    return cases


def eval_chunk(job):
    """Runs a chunk of evaluation cases; returns (records, log)."""
    cases, tr0 = job
    log: list = []
    recs = []
    bases: dict = {}
    for i, case in enumerate(cases):
        key = (case['mode'], tuple(case['inst']), case['lc0'])
        if key not in bases:
            bases[key] = baseline(*[case['mode'], case['inst'], case['lc0']])
        case['_baseline'] = bases[key]
        rec = eval_case(case, log, tr0 + i)
        case.pop('_baseline')
        rec['case'] = case
        recs.append(rec)
    return recs, log


def stress_trace(mode: str, inst: list[str], nthreads: int, iters: int, seed: int, log: list, tr: int) -> dict:
    """Unsynchronised real threads hammering collation call sites (real blocking lock)."""
    w = make_world(mode, inst, 'C', log, tr, acquire_timeout=30.0)
    install(w)
    rnd = random.Random(seed)
    # collations whose fallback is not installed leak the lock on the pinned tree and would make every
    # thread wait for the hang detector: those are covered by eval_cases and by binding A
    cls = ['L1', 'L2', 'cp'] + (['U1'] if 'L1' in inst or 'FB' in inst else []) + (['U2', 'UFB'] if 'FB' in inst else [])
    progs = []
    for t in range(nthreads):
        prog = []
        for _ in range(iters):
            tpl = rnd.choice(STRESS_POOL)
            a = rnd.choice(cls)
            us = coll_uris(a, mode)
            prog.append((tpl.replace('{A}', '$a').replace('{CP}', q(CODEPOINT)), {'a': rnd.choice(us)}))
        progs.append(prog)
    expected = []
    w.register(9)
    saved_log, w.log = w.log, None             # sequential reference run, not logged
    for prog in progs:
        expected.append([outcome_of(lambda e=e, v=v: api_select(e, v)) for e, v in prog])
    w.log = saved_log
    pre_obs = []
    if w.lock.locked():                        # the sequential run already leaked: report, start clean
        pre_obs.append('lock_held')
        w.lock.owner = 0
        w.lock._l.release()
    w.aborted.clear()
    results: list = [None] * nthreads

    stop = threading.Event()

    def work(t):
        w.register(t + 1)
        res = []
        for e, v in progs[t]:
            if stop.is_set():              # somebody hangs: the verdict is in, do not wait for it again and again
                break
            out = logged_eval(w, t + 1, lambda e=e, v=v: api_select(e, v))
            res.append(out)
            if out[0] in ('self_wait', 'hung', 'hung_alarm'):
                stop.set()
        results[t] = res

    old = sys.getswitchinterval()
    sys.setswitchinterval(1e-6)
    try:
        ths = [threading.Thread(target=work, args=(t,), daemon=True) for t in range(nthreads)]
        for th in ths:
            th.start()
        for th in ths:
            th.join(timeout=120)
        alive = sum(th.is_alive() for th in ths)
    finally:
        sys.setswitchinterval(old)
    after_lc, locked = w.current(), w.lock.locked()
    uninstall()
    diffs = []
    for t in range(nthreads):
        if results[t] is None:
            diffs.append((t, 'no result'))
            continue
        if len(results[t]) < len(progs[t]):
            diffs.append((t, 'stopped after a hang', len(results[t])))
        for (e, v), x, y in zip(progs[t], expected[t], results[t]):
            if x != y:
                diffs.append((t, e, v, x, y))
    obs = list(pre_obs)
    if alive:
        obs.append('threads_hung')
    if locked and 'lock_held' not in obs:
        obs.append('lock_held')
    if w.abstract(after_lc) != 'C':
        obs.append('lc_collate')
    if diffs:
        obs.append('concurrent_answer')
    return {'tr': tr, 'obs': obs, 'diffs': diffs[:3], 'evaluations': nthreads * iters,
            'case': {'kind': 'stress', 'mode': mode, 'inst': inst, 'threads': nthreads, 'iters': iters, 'seed': seed}}


def stress_chunk(job):
    log: list = []
    recs = [stress_trace(*a, log=log, tr=tr) for (a, tr) in job]
    return recs, log


def add_hints(log: list) -> None:
    """acquire.v := locale of the next `set` of the same thread in the same trace (search hint only)."""
    nxt: dict = {}
    for ev in reversed(log):
        key = (ev['tr'], ev['t'])
        if ev['e'] == 'set':
            nxt[key] = ev['v']
        elif ev['e'] == 'acquire':
            ev['v'] = nxt.get(key, '')
        elif ev['e'] == 'reset':
            nxt = {}


def _validate_part(args):
    wd, name, part, threads = args
    os.makedirs(wd, exist_ok=True)
    consts = dict(Threads=set(range(1, threads + 1)), Configs=frozenset([frozenset()]), InitLocales={'C'},
                  Colls={'L1', 'L2', 'U1', 'U2', 'UFB'}, Kinds={'plain', 'gen', 'lazy', 'rec'}, MaxCalls=0, MaxDepth=4,
                  MaxItems=0, Variant='union', Transient=True, TimedAcquire=False)
    cfg = tla.cfg_text(consts, spec='TraceSpec', invariants=['TraceInv'], postcondition='MaxPos')
    # trace ids are renumbered 1..K inside the file (they index TLC registers)
    ids: dict[int, int] = {}
    path = os.path.join(wd, 'trace.ndjson')
    with open(path, 'w') as f:
        for ev in part:
            k = ids.setdefault(ev['tr'], len(ids) + 1)
            f.write(json.dumps(dict(ev, tr=k)) + '\n')
        f.write(json.dumps({'tr': 0, 't': 0, 's': 0, 'e': 'reset', 'v': '', 'r': '', 'inst': [], 'lc0': 'C'}) + '\n')
    back = {k: t for t, k in ids.items()}
    r = tla.run_tlc('TraceCollation', cfg, wd, workers=1, env={'TRACE_FILE': path}, timeout=2400, heap='3g')
    if not r.ok or r.violated:
        raise tla.MachineryError(f'TLC failed on TraceCollation/{name}: ' + '\n'.join(r.output.splitlines()[-30:]))
    accepted: dict[int, list] = {}
    for v in tla.printed_values(r.output, 'acc'):
        accepted.setdefault(back[v[0]], []).append((sorted(v[1]), sorted(v[2])))
    maxpos = {back[v[0]]: v[1] for v in tla.printed_values(r.output, 'maxpos')}
    if set(maxpos) != set(ids):
        raise tla.MachineryError(f'TraceCollation/{name}: {len(ids)} traces written, {len(maxpos)} seen by TLC')
    rejected = []
    for t in ids:
        if t not in accepted:
            n = maxpos[t]                       # 1-based index of the last explained line
            rejected.append((t, part[n] if n < len(part) and part[n]['tr'] == t else {'e': '(end of trace)'}))
    return accepted, rejected, [r]


def validate_traces(chk: core.Check, log: list, name: str, threads: int = 3, parts: int = 8):
    """TLC validates the log against TraceCollation (split at trace boundaries over `parts` JVMs).
    Returns ({trace id: [(dev, bad), ...]} for the accepted traces, [(trace id, first unmatched line)])."""
    add_hints(log)
    starts = [i for i, ev in enumerate(log) if ev['e'] == 'reset']
    if not starts:
        return {}, []
    parts = max(1, min(parts, len(starts)))
    per = (len(starts) + parts - 1) // parts
    cuts = [starts[i] for i in range(0, len(starts), per)] + [len(log)]
    jobs = [(os.path.join(chk.scratch, f'{name}-{k}'), name, log[cuts[k]:cuts[k + 1]], threads)
            for k in range(len(cuts) - 1)]
    accepted: dict[int, list] = {}
    rejected: list = []
    with ThreadPoolExecutor(max_workers=len(jobs)) as ex:
        for k, (acc, rej, models) in enumerate(ex.map(_validate_part, jobs)):
            accepted.update(acc)
            rejected += rej
            for j, r in enumerate(models):
                chk.model(f'TraceCollation/{name}-{k}#{j + 1}', r)
    return accepted, rejected


# ----------------------------------------------------------------------------------------------
# Globals: os.environ, decimal context, allow_environment gate, entity-declaring DOCTYPE

NAME_BIND = {'N1': 'LC_ALL', 'N2': 'PATH', 'N3': 'verif c19 \u00fc'}
ENV_VALUE = {'LC_ALL': 'C.UTF-8'}       # an installed locale: what it takes for a locale variable to show


def env_value(n: str) -> str:
    return ENV_VALUE.get(n, 'value-of-' + n)
MARK = 'EXPANDED-ENTITY'
# kind of XML text -> (DOCTYPE, name of the entity a reference can be made to)
ENT_DECL = {
    'none': ('', None),
    'internal': (f'<!DOCTYPE r [<!ENTITY e "{MARK}">]>', 'e'),
    'internal_unused': (f'<!DOCTYPE r [<!ENTITY e "{MARK}">]>', None),
    'external': ('<!DOCTYPE r [<!ENTITY e SYSTEM "file:///etc/hostname">]>', 'e'),
    'parameter': (f'<!DOCTYPE r [<!ENTITY % p "<!ENTITY e \'{MARK}\'>"> %p;]>', 'e'),
    'unparsed': ('<!DOCTYPE r [<!NOTATION n SYSTEM "n"><!ENTITY e SYSTEM "x.gif" NDATA n>]>', None),
    'nested': ('<!DOCTYPE r [<!ENTITY a "EXPANDED-"><!ENTITY b "&a;&a;ENTITY">]>', 'b'),
    'doctype': ('<!DOCTYPE r>', None),
}
XML_DECL = '<?xml version="1.0" encoding="utf-8"?>'


def prolog(kind: str, size: int) -> str:
    """Exactly `size` characters of legal XML prolog in front of the DOCTYPE / the root element."""
    def ws(n):
        return ('\n' + ' ' * 79) * (n // 80) + ' ' * (n % 80)
    if kind == 'decl_comment':
        if size < len(XML_DECL):
            return ws(size)
        return XML_DECL + prolog('comment', size - len(XML_DECL))
    if kind == 'comment' and size >= 7:
        return '<!--' + 'c' * (size - 7) + '-->'
    if kind == 'pi' and size >= 6:
        return '<?p ' + 'x' * (size - 6) + '?>'
    return ws(size)


XML_DECLS = {
    'none': '', 'version': '<?xml version="1.0"?>',
    'standalone-yes': '<?xml version="1.0" encoding="UTF-8" standalone="yes"?>',
    'standalone-no': '<?xml version="1.0" encoding="UTF-8" standalone="no"?>',
    'bogus': '<?xml version="1.0" encoding="x-no-such-encoding"?>',
}
for _e in ('UTF-8', 'utf-8', 'ISO-8859-1', 'US-ASCII', 'UTF-16', 'UTF-16LE', 'UTF-16BE', 'UCS-4',
           # multi-byte labels that expat refuses and libxml2 (lxml) decodes, single-byte and odd ones
           'Shift_JIS', 'cp932', 'EUC-JP', 'EUC-KR', 'GBK', 'GB2312', 'Big5', 'windows-1252', 'KOI8-R', 'IBM037', 'UTF-7'):
    XML_DECLS[_e] = f'<?xml version="1.0" encoding="{_e}"?>'


def entity_text(ek: str, pre: str, size: int, ref: str, xmldecl: str = 'none') -> str:
    decl, name = ENT_DECL[ek]
    if name is None:
        body = '<r>t</r>'
    elif ref == 'attr':
        body = f'<r a="&{name};">t</r>'
    else:
        body = f'<r>&{name};</r>'
    return XML_DECLS[xmldecl] + prolog(pre, size) + decl + body


DEC_OPS = {
    'div': '1 div 3', 'round': 'round-half-to-even(2.345, 2)', 'mul': "xs:decimal('1.10') * 3",
    'sum': 'sum((0.1, 0.2, 0.3))', 'avg': 'avg((1, 2, 2.5))', 'idiv': '10 idiv 3.3', 'mod': '10.5 mod 3',
    'format': "format-number(1234.5, '#,##0.00')", 'cast': 'xs:decimal(1e0 div 3)', 'round2': 'round(2.567, 2)',
    'big': "xs:decimal('12345678901234567890.123456789') * xs:decimal('98765432109876543210.987654321')",
    'sci': "xs:decimal('0.000000000000000000001') div 7",
    # more significant digits than the precision of the default decimal context
    'format_big': "format-number(12345678901234567890123456789.75, '#,##0.0')",
    'format_big_double': "format-number(1e30, '#')",
    'format_big_neg': "format-number(-98765432109876543210987654321.5, '0.00')",
    # not decimal, but the same kind of vector: the process-wide state of the `random` module
    'random': "random-number-generator(42)?number", 'random-permute': "random-number-generator(7)?permute(1 to 5)",
    'random-next': "random-number-generator()?next()?number",
}


MAGS = {
    'ordinary': '2', '1e27': '1e27', '1e30': '1e30', '-1e30': '-1e30', '1e300': '1e300',
    'huge_int': '1' + '0' * 40, 'huge_dec': '1' + '0' * 30 + '.5', 'NaN': "xs:double('NaN')",
    'INF': "xs:double('INF')", '-INF': "xs:double('-INF')",
}
SEQ = '(1 to 4)'
SEQ_FNS = {
    'subsequence2': 'subsequence({S}, {M})', 'subsequence3': 'subsequence({S}, 1, {M})',
    'subsequence-neg': 'subsequence({S}, -({M}), 2 * ({M}))', 'remove': 'remove({S}, {M})',
    'insert-before': "insert-before({S}, {M}, 'x')", 'index-of': 'index-of(({S}, {M}), {M})',
    'distinct-values': 'distinct-values(({S}, {M}, {M}))', 'reverse': 'reverse(({S}, {M}))',
    'tail': 'tail(({M}, {S}))', 'for': 'for $x in {S} return $x + {M}',
    'some': '(some $x in {S} satisfies $x + {M} > 0)', 'every': '(every $x in {S} satisfies $x + {M} > 0)',
    'filter': 'filter({S}, function($x){$x < {M}})', 'for-each': 'for-each({S}, function($x){$x * {M}})',
    'for-each-pair': 'for-each-pair({S}, {S}, function($a,$b){$a + $b + {M}})', 'simple-map': '{S} ! (. + {M})',
    'predicate': '{S}[. < {M}]', 'position-pred': '{S}[position() < {M}]',
    'round': 'for $x in {S} return round($x * {M})', 'decimal-div': 'for $x in {S} return xs:decimal($x) div 3 + {M}',
}
CONSUMES = {
    'full': '{E}', 'first': '({E})[1]', 'head': 'head({E})', 'exists': 'exists({E})',
    'some': 'some $v in ({E}) satisfies true()', 'exactly-one': 'exactly-one({E})', 'zero-or-one': 'zero-or-one({E})',
    'lockstep-fep': 'for-each-pair({E}, {E}, function($a,$b){$a})', 'lockstep-deq': 'deep-equal({E}, {E})',
    'lockstep-eq': '({E}) = ({E})', 'iter1': '{E}',      # iter1: iter_select(), one item, dropped by the caller
}


def seq_expr(fn: str, consume: str, mag: str) -> str:
    e = SEQ_FNS[fn].replace('{S}', SEQ).replace('{M}', MAGS[mag])
    return CONSUMES[consume].replace('{E}', e)


def dec_state() -> tuple:
    ctx = decimal.getcontext()
    return (ctx.prec, ctx.rounding, ctx.Emin, ctx.Emax, ctx.capitals, ctx.clamp,
            tuple(sorted(str(k.__name__) for k, v in ctx.traps.items() if v)))


def project_globals(act, raw):
    if raw[0] != 'value':
        return ('reject',) if act == 'ParseXml' else ('raised', raw)
    v = raw[1]
    if act == 'EnvVar':
        if v == []:
            return ('empty',)
        for a, n in NAME_BIND.items():
            if v == env_value(n):
                return ('value', a)
        return ('value', '?')
    if act == 'AvailVars':
        vs = v if isinstance(v, list) else [v]
        return ('names', frozenset(a if (a := {n: k for k, n in NAME_BIND.items()}.get(x)) else '?' for x in vs))
    if act == 'ParseXml':
        if v == 'passed':
            return ('doc',)                    # the defuse_xml helper let the text through
        # v is the string value of all text and attribute nodes of the parsed document
        return ('expanded',) if 'EXPANDED' in str(v) else ('doc',)
    if act == 'DefaultCollation':
        return ('codepoint',) if v == CODEPOINT else ('other', str(v))
    return ('any',)



def _set_environ(want: set, stats) -> None:
    for n in list(os.environ):           # the application changes its environment (App actions)
        if n not in want:
            del os.environ[n]
            stats['transitions'] += 1
    for n in want:
        if n not in os.environ:
            os.environ[n] = env_value(n)
            stats['transitions'] += 1


def globals_worker(job):
    """Replays the object-independent transitions of the Globals graph (ParseXml, Decimal, DefaultCollation of the
    base states) in one process (history of os.environ kept)."""
    states, order, out_edges, seed = job
    import elementpath
    from elementpath.etree import defuse_xml
    from elementpath.xpath30 import XPath30Parser
    from elementpath.xpath31 import XPath31Parser
    import xml.etree.ElementTree as ET
    import lxml.etree as LET
    roots = {'etree': ET.XML('<r><a>x</a></r>'), 'lxml': LET.XML('<r><a>x</a></r>')}
    parsers = {'3.0': XPath30Parser, '3.1': XPath31Parser}
    combos = [(lib, ver) for lib in roots for ver in parsers]
    os.environ.clear()
    fails = []
    stats = collections.Counter()
    samples = []
    k = seed

    for sid in order:
        st = states[sid]
        edges = [e for e in out_edges.get(sid, ()) if e[1] in ('ParseXml', 'Decimal', 'DefaultCollation', 'SeqEval')]
        if not edges:
            continue
        want = {NAME_BIND[a] for a in st['env']}
        _set_environ(want, stats)
        for (dst, act, args) in edges:
            exp = tuple(states[dst]['res'])
            text = None
            if act == 'ParseXml':
                api, ek, pre, size, ref, xmldecl = args
                text = entity_text(ek, pre, size, ref, xmldecl)
                expr = f"string-join(({api}($x)//text(), {api}($x)//@*/string()), '|')"
                kw, var = {}, {'x': text}
            elif act == 'DefaultCollation':
                expr, kw, var = 'default-collation()', {}, {}
            elif act == 'SeqEval':
                expr, kw, var = seq_expr(*args), {}, {}
            else:
                expr, kw, var = DEC_OPS[args[0]], {}, {}
            stats['transitions'] += 1
            if (act == 'ParseXml' and args[1] != 'none') or (act == 'DefaultCollation' and st['env']) or \
                    (act == 'SeqEval' and args[1] != 'full' and args[2] != 'ordinary'):
                stats['nontrivial'] += 1       # an entity-declaring text / a non-empty environment
            k += 1
            # small vectors: every tree library x parser version; large texts: one combination each, rotating
            if act == 'ParseXml' and args[5] != 'none' and args[3] <= 100:
                todo = [('etree', ('3.0', '3.1')[k % 2]), ('lxml', ('3.1', '3.0')[k % 2])]     # both tree libraries
            elif (act == 'ParseXml' and args[3] > 100) or act == 'SeqEval':
                todo = [combos[k % 4]]
            else:
                todo = combos
            for lib, ver in todo:
                rt, pc = roots[lib], parsers[ver]
                before = snapshot_globals(None)
                at_raise = None
                try:
                    if act == 'SeqEval' and args[1] == 'iter1':
                        it = elementpath.Selector(expr, parser=pc).iter_select(rt)
                        first = next(it, None)
                        del it               # the caller drops the iterator after one item
                        raw = ('value', first)
                    elif act == 'ParseXml' and args[0] == 'defuse_xml':
                        defuse_xml(text if (k + len(lib)) % 2 else text.encode('utf-8'))
                        raw = ('value', 'passed')
                    else:      # Selector.select passes its keyword arguments to the dynamic context
                        raw = ('value', elementpath.Selector(expr, parser=pc).select(rt, variables=dict(var), **kw))
                except Exception as e:
                    at_raise = dec_state()      # while the exception (and the frames it keeps) is alive
                    raw = ('raised', type(e).__name__, str(getattr(e, 'code', None)))
                stats['evaluations'] += 1
                obs = project_globals(act, raw)
                mon = diff_globals(before, snapshot_globals(None))
                if at_raise is not None and at_raise != before['dec']:
                    mon.append('decimal_context_at_raise')
                bad = None
                if exp[0] != 'any' and exp != tuple(obs):
                    bad = 'result'
                if mon:
                    bad = 'globals:' + '+'.join(mon)
                    if 'decimal_context' in mon:       # keep the following cases independent
                        decimal.getcontext().prec = before['dec'][0]
                        decimal.getcontext().rounding = before['dec'][1]
                if bad:
                    feat = {'part': 'globals', 'action': act, 'what': bad, 'observed': str(obs[0]),
                            'arg': args[1] if act == 'ParseXml' else (str(args[-1]) if args else ''),
                            'fn': args[0] if act in ('ParseXml', 'SeqEval') else act,
                            'prefix': args[2] if act == 'ParseXml' else (args[1] if act == 'SeqEval' else ''),
                            'decl': args[5] if act == 'ParseXml' else '',
                            'size_class': ('-' if act != 'ParseXml' else 'small' if args[3] <= 100 else
                                           'le16K' if args[3] <= 16384 else 'gt16K')}
                    shown = {kk: (vv if len(str(vv)) < 300 else f'<{len(vv)} characters>') for kk, vv in var.items()}
                    fails.append((feat, {'kind': 'globals', 'env': sorted(want), 'expr': expr, 'vars': shown, 'kw': kw,
                                         'lib': lib, 'parser': ver, 'action': act, 'args': list(args)},
                                  list(exp), [str(x) for x in obs] + [str(raw)[:120]]))
                elif len(samples) < 3 and act == 'ParseXml' and exp[0] == 'reject' and args[3] > 4096:
                    samples.append({'part': 'globals', 'vector': list(args), 'text_length': len(text),
                                    'expected': list(exp), 'observed': str(raw)[:80]})
    return dict(stats), fails, samples


def envgate_paths(states, init, out_edges, max_apps: int) -> list[list[tuple]]:
    """Every history of the environment gate: maximal sequences of evaluations through ONE object, the
    application changing os.environ at most `max_apps` times in between (edges of the TLC graph)."""
    paths: list = []

    def walk(sid, path, apps, last_app):
        evals = [e for e in out_edges.get(sid, ()) if e[1] in ('EnvVar', 'AvailVars')]
        if not evals:
            if path:
                paths.append(path)
            return
        for e in evals:
            walk(e[0], path + [(sid, e)], apps, False)
        if apps < max_apps and not last_app:
            for e in out_edges.get(sid, ()):
                if e[1] in ('SetVar', 'UnsetVar'):
                    walk(e[0], path + [(sid, e)], apps + 1, True)
    for s0 in init:
        walk(s0, [], 0, False)
    return [p for p in paths if p[-1][1][1] in ('EnvVar', 'AvailVars')]


def envgate_worker(job):
    """One object (token / Selector / parser instance / function item) per history, evaluated again and again
    with the allow_environment flags of the history; every answer comes from the TLC state reached."""
    states, paths, seed = job
    import elementpath
    from elementpath import XPathContext
    from elementpath.xpath30 import XPath30Parser
    from elementpath.xpath31 import XPath31Parser
    import xml.etree.ElementTree as ET
    import lxml.etree as LET
    roots = [ET.XML('<r><a>x</a></r>'), LET.XML('<r><a>x</a></r>')]
    parsers = [('3.1', XPath31Parser), ('3.0', XPath30Parser)]
    stats = collections.Counter()
    fails = []
    samples = []
    for pi, path in enumerate(paths):
        S0 = states[path[0][0]]
        kind, fun = S0['obj'], S0['fun']
        ver, pc = parsers[(pi + seed) % 2]
        rt = roots[1] if (pi + seed) % 5 == 0 else roots[0]
        os.environ.clear()
        _set_environ({NAME_BIND[a] for a in S0['env']}, collections.Counter())
        expr = 'environment-variable($n)' if fun == 'envvar' else 'available-environment-variables()'
        parser = pc()
        if kind == 'token':
            thing = parser.parse(expr)
        elif kind == 'selector':
            thing = elementpath.Selector(expr, parser=pc)
        elif kind == 'parser':
            thing = parser
        else:
            thing = None          # the function item, made by the first evaluation
        hist = []
        steps_done = []
        for (sid, (dst, act, args)) in path:
            D = states[dst]
            steps_done.append([act, list(args)])
            if act in ('SetVar', 'UnsetVar'):
                _set_environ({NAME_BIND[a] for a in D['env']}, stats)
                continue
            allow = args[-1]
            name = NAME_BIND[args[0]] if act == 'EnvVar' else None
            kw = {'allow_environment': True} if allow else {}
            var = {'n': name} if name is not None else {}
            before = dict(os.environ)
            try:
                if kind == 'token':
                    v = thing.evaluate(XPathContext(rt, variables=dict(var), **kw))
                elif kind == 'selector':
                    v = thing.select(rt, variables=dict(var), **kw)
                elif kind == 'parser':
                    v = thing.parse(expr).evaluate(XPathContext(rt, variables=dict(var), **kw))
                elif thing is None:
                    ref = 'environment-variable#1' if fun == 'envvar' else 'available-environment-variables#0'
                    thing = elementpath.Selector(ref, parser=pc).select(rt, **kw)
                    v = thing
                else:
                    ctx = XPathContext(rt, **kw)
                    v = thing(name, context=ctx) if fun == 'envvar' else thing(context=ctx)
                raw = ('value', v)
            except Exception as e:
                raw = ('raised', type(e).__name__, str(getattr(e, 'code', None)))
            stats['evaluations'] += 1
            stats['transitions'] += 1
            exp = tuple(D['res'])
            if exp == ('item',):
                obs = ('item',) if raw[0] == 'value' and callable(raw[1]) else ('raised', str(raw)[:80])
            else:
                obs = project_globals(act, raw)
                if act == 'AvailVars' and exp == ('empty',):
                    exp = ('names', frozenset())          # an empty sequence either way
            hist.append(bool(allow))
            bad = None
            if exp != tuple(obs):
                bad = 'result'
            if dict(os.environ) != before:
                bad = 'globals:environ'
            if len(hist) > 1 and D['env']:
                stats['nontrivial'] += 1        # a re-used object in a non-empty environment
            if bad:
                feat = {'part': 'envgate', 'object': kind, 'fn': act, 'what': bad, 'allow': bool(allow),
                        'history': ''.join('A' if h else 'd' for h in hist[:-1]) or '-', 'observed': str(obs[0])}
                fails.append((feat, {'kind': 'envgate', 'object': kind, 'fun': fun, 'parser': ver,
                                     'env0': sorted(S0['env']),
                                     'steps': steps_done},
                              [str(x) for x in exp], [str(x) for x in obs]))
                break
        else:
            if len(samples) < 2 and len(hist) == 3 and hist[0] and not hist[-1] and S0['env']:
                samples.append({'part': 'envgate', 'object': kind, 'fun': fun, 'env0': sorted(S0['env']),
                                'history': [[a, list(x)] for (_, (_, a, x)) in path], 'result': 'as the specification says'})
    return dict(stats), fails, samples


# ----------------------------------------------------------------------------------------------
# fresh processes: first-use races of the process-wide lazy caches (spec/LazyCache.tla) and
# non-interference of the environment for EVERY expression (spec/Globals.tla NonInterference)

LAZY_FAMILIES = {
    'w': ["matches($s, '^[\\w.\\-]+$')", "replace($s, '[^\\w]', '#')", "string-join(tokenize($s, '[\\W]+'), '|')"],
    'd': ["matches($s, '^[\\d.]+$')", "replace($s, '[^\\d]', '#')", "replace($s, '[\\D]+', '-')"],
    's': ["replace($s, '[\\s,]+', '_')", "matches($s, '^[^\\s]+$')"],
    'i': ["matches($s, '^[\\i][\\c]*$')", "replace($s, '[^\\i]', '#')"],
    'c': ["replace($s, '[^\\c]', '#')", "matches($s, '^[\\c]+$')"],
    'p': ["replace($s, '[\\p{L}]', 'L')", "matches($s, '^\\p{Ll}')", "replace($s, '[\\p{IsBasicLatin}]', 'b')",
          "replace($s, '\\p{IsNoBlock}', 'n')", "replace($s, '[\\P{Nd}]', 'x')"],
    'misc': ["format-number(1234.5, '#,##0.00')", "translate($s, 'abc', 'xyz')", "normalize-unicode($s)",
             "upper-case($s)", "format-integer(12, 'w')", "xs:decimal('1.5') * 2", "compare($s, 'b')",
             "string(xs:date('2020-01-02') + xs:dayTimeDuration('P1D'))", "parse-json('[1,2]')?2",
             "string-join(analyze-string($s, '[a-z]+')//*:match, '|')", "//a[1]/string()", "count(//*)"],
}
_LAZY_SCRIPT = r"""
import sys, os, json, threading, time
sys.path.insert(0, os.environ['C19_REPO'])
sys.setswitchinterval(1e-5)
import xml.etree.ElementTree as ET
from elementpath import Selector
from elementpath.xpath31 import XPath31Parser
exprs = json.loads(os.environ['C19_EXPRS'])
N = int(os.environ['C19_THREADS']); delay = float(os.environ['C19_DELAY'])
entered = threading.Event()
patched = 0
try:       # scripted delay in every lazily cached builder: the race window is as long as the first build
    from elementpath.regex import character_classes as cc
    for name in dir(cc):
        w = getattr(cc, name)
        orig = getattr(w, '__wrapped__', None)
        if callable(w) and orig is not None and getattr(w, '__closure__', None):
            for cell in w.__closure__:
                if cell.cell_contents is orig:
                    def delayed(orig=orig):
                        entered.set()
                        time.sleep(delay)
                        return orig()
                    cell.cell_contents = delayed
                    patched += 1
except Exception as e:
    patched = -1
stagger = float(os.environ.get('C19_STAGGER', '0'))
if stagger:    # caches without a builder function of their own (UnicodeData.block('NoBlock')): the scripted delay
    try:       # goes into the set subtraction they are built with, the threads arrive a few ms apart
        from elementpath.regex.unicode_subsets import UnicodeSubset
        _isub = UnicodeSubset.__isub__
        def slow_isub(self, other):
            time.sleep(0.0005)
            return _isub(self, other)
        UnicodeSubset.__isub__ = slow_isub
        patched += 1
    except Exception:
        pass
root = ET.XML('<r><a>alpha</a><a>beta</a></r>')
strings = ['kappa%d2 x.y-z %d' % (i, i) if i % 2 else 'Kappa%d_%d' % (i, i) for i in range(N)]
def work(i):
    out = []
    for e in exprs:
        try:
            v = Selector(e, parser=XPath31Parser).select(root, variables={'s': strings[i]})
            out.append(repr(v))
        except Exception as x:
            out.append('raised:' + type(x).__name__)
    return out
results = [None] * N
def run(i):
    if i and stagger:
        time.sleep(stagger * i)
    elif i:
        entered.wait(0.6)        # arrive while the first thread is inside the builder (or just after it started)
    results[i] = work(i)
ths = [threading.Thread(target=run, args=(i,), daemon=True) for i in range(N)]
for t in ths: t.start()
for t in ths: t.join(60)
sequential = [work(i) for i in range(N)]
print('C19JSON' + json.dumps({'patched': patched, 'window': entered.is_set(), 'results': results, 'sequential': sequential}))
"""
ENV_STATES = {
    'LANG': {'LANG': 'ja_JP.UTF-8'}, 'LC_ALL': {'LC_ALL': 'ja_JP.UTF-8'}, 'LANGUAGE': {'LANGUAGE': 'ja:en'},
    'LC_MESSAGES': {'LC_MESSAGES': 'ja_JP.UTF-8'}, 'TZ': {'TZ': 'Asia/Tokyo'}, 'HOME': {'HOME': '/nonexistent-c19-home'},
    'PATH': {'PATH': '/c19-marker-path'}, 'C19': {'C19_SECRET_TOKEN': 's3cr3t'},
    'all': {'LANG': 'ja_JP.UTF-8', 'LANGUAGE': 'ja:en', 'LC_MESSAGES': 'ja_JP.UTF-8', 'HOME': '/nonexistent-c19-home',
            'C19_SECRET_TOKEN': 's3cr3t'},
}
ENV_EXTRA_EXPRS = ["compare('a','B')", "format-date(xs:date('2020-01-02'), '[MNn] [D1o] [FNn]')",
                   "format-dateTime(current-dateTime(), '[H01]:[m01] [Z]')", "string(current-dateTime())",
                   "format-integer(3, 'Ww')", "format-number(1234.5, '#,##0.00')", "lang('en', /r)", "1 div 3",
                   "sort(('b','a','B'))", "upper-case('i')", "environment-variable('C19_SECRET_TOKEN')",
                   "count(available-environment-variables())", "string(xs:dateTime('2020-01-02T03:04:05') - current-dateTime())",
                   "adjust-dateTime-to-timezone(xs:dateTime('2020-01-02T03:04:05'))", "doc-available('x.xml')",
                   "unparsed-text-available('x.txt')", "static-base-uri()", "resolve-uri('x')", "default-language#0()",
                   "function-lookup(xs:QName('fn:default-language'), 0)()"]
_ENV_SCRIPT = r"""
import sys, os, json, datetime
# the variables are set at RUN TIME (the interpreter itself started in the same clean environment every time,
# so its own locale initialisation - which legitimately reads LC_ALL / LANG - is the same in every run)
os.environ.update(json.loads(os.environ.pop('C19_SETENV')))
sys.path.insert(0, os.environ['C19_REPO'])
import xml.etree.ElementTree as ET
from elementpath import Selector
from elementpath.xpath31 import XPath31Parser
root = ET.XML('<r xml:lang="en"><a>alpha</a></r>')
p = XPath31Parser()
names = sorted({(getattr(q, 'qname', None) or str(q)) for (q, n) in p.function_signatures if n == 0})
exprs = [n + '()' for n in names] + json.loads(os.environ['C19_EXPRS'])
dt = datetime.datetime(2020, 1, 2, 3, 4, 5, tzinfo=datetime.timezone.utc)
out = {}
for e in exprs:
    try:
        v = Selector(e, parser=XPath31Parser).select(root, current_dt=dt)
        out[e] = repr(v)[:200]
    except Exception as x:
        out[e] = 'raised:' + type(x).__name__ + ':' + str(getattr(x, 'code', None))
print('C19JSON' + json.dumps(out))
"""
# what is implementation-defined to come from the system: the implicit timezone follows TZ
ENV_EXCLUDED = {'TZ': ('implicit-timezone', 'adjust-dateTime-to-timezone', "format-dateTime(current-dateTime(), '[H01]:[m01] [Z]')")}


def _fresh_process(args):
    """Run a script in a FRESH interpreter (nothing of elementpath imported, no cache filled)."""
    import subprocess
    script, extra_env, base_env = args
    env = {k: v for k, v in os.environ.items() if k not in ('LANG', 'LC_ALL', 'LANGUAGE', 'LC_MESSAGES', 'LC_CTYPE', 'TZ')} \
        if base_env is None else dict(base_env)
    env.update(extra_env)
    env['C19_REPO'] = core.REPO
    try:
        r = subprocess.run([sys.executable, '-c', script], env=env, capture_output=True, text=True, timeout=300)
    except subprocess.TimeoutExpired:
        return {'_error': 'timeout'}
    for line in r.stdout.splitlines():
        if line.startswith('C19JSON'):
            return json.loads(line[7:])
    return {'_error': (r.stderr or r.stdout)[-400:]}


def parser_locale_race(_arg=None) -> dict:
    """A parser constructed while ANOTHER thread is inside a collation critical section (scripted pause right after
    its setlocale): the parser's static default collation must be what a sequentially built parser gets."""
    from elementpath.xpath31 import XPath31Parser
    w = World('sim', installed={'de_DE.UTF-8'}, log=[])
    inside, resume = threading.Event(), threading.Event()
    inner = w.c_setlocale

    def paused(category, value=None):
        r = inner(category, value)
        if category == locale.LC_COLLATE and value not in (None, 'C') and threading.current_thread().name == 'c19-holder':
            inside.set()
            resume.wait(5)
        return r
    w.c_setlocale = paused
    install(w)
    try:
        w.register(1)
        sequential = XPath31Parser().default_collation
        th = threading.Thread(target=lambda: (w.register(2), api_select("compare('a','b',$c)", {'c': 'de_DE.UTF-8'})),
                              name='c19-holder', daemon=True)
        th.start()
        entered = inside.wait(5)
        concurrent = XPath31Parser().default_collation
        resume.set()
        th.join(5)
        return {'entered': entered, 'sequential': sequential, 'concurrent': concurrent, 'lc_after': w.current()}
    finally:
        resume.set()
        uninstall()


def fresh_process_families(tier: str) -> dict:
    """First-use races of the lazy caches and the environment non-interference family, each case in its own
    fresh interpreter (run in parallel)."""
    n_threads = 6 if tier == 'quick' else 10
    jobs, tags = [], []
    for fam, exprs in LAZY_FAMILIES.items():
        for rep_ in range(1 if tier == 'quick' else 3):
            jobs.append((_LAZY_SCRIPT, {'C19_EXPRS': json.dumps(exprs), 'C19_THREADS': str(n_threads),
                                        'C19_DELAY': '0.25', 'C19_STAGGER': '0.02' if fam == 'p' else '0'}, None))
            tags.append(('lazy', fam))
    clean = {'PATH': os.environ.get('PATH', ''), 'HOME': os.environ.get('HOME', '/root')}
    for state, extra in [('base', {}), ('base2', {})] + list(ENV_STATES.items()):
        jobs.append((_ENV_SCRIPT, {'C19_SETENV': json.dumps(extra), 'C19_EXPRS': json.dumps(ENV_EXTRA_EXPRS)}, clean))
        tags.append(('env', state))
    with ThreadPoolExecutor(max_workers=8) as ex:
        outs = list(ex.map(_fresh_process, jobs))
    fails, stats = [], collections.Counter()
    base = base2 = None
    for (kind, tag), out in zip(tags, outs):
        if '_error' in out:
            raise tla.MachineryError(f'fresh process {kind}/{tag}: {out["_error"]}')
        if kind == 'lazy':
            stats['lazy_processes'] += 1
            stats['lazy_patched_builders'] += max(out['patched'], 0)
            stats['lazy_windows_open'] += bool(out['window'])
            for i, (c, q_) in enumerate(zip(out['results'], out['sequential'])):
                stats['lazy_evaluations'] += len(q_)
                if c != q_:
                    k = next((j for j, (x, y) in enumerate(zip(c or [], q_)) if x != y), 0)
                    fails.append(({'part': 'lazycache', 'family': tag, 'what': 'concurrent_answer'},
                                  {'kind': 'lazycache', 'family': tag, 'threads': n_threads, 'thread': i},
                                  q_[k] if q_ else None, (c[k] if c else 'no result') + '  for ' + LAZY_FAMILIES[tag][k]))
        elif tag == 'base':
            base = out
        elif tag == 'base2':
            base2 = out
    stable = {e for e in base if base[e] == base2.get(e)}       # what two identical runs answer identically
    stats['env_expressions'] = len(stable)
    stats['env_unstable_excluded'] = len(base) - len(stable)
    for (kind, tag), out in zip(tags, outs):
        if kind != 'env' or tag in ('base', 'base2'):
            continue
        stats['env_processes'] += 1
        for e in sorted(stable):
            if any(x in e for x in ENV_EXCLUDED.get(tag, ())):
                continue
            stats['env_evaluations'] += 1
            if out.get(e) != base[e]:
                fails.append(({'part': 'envblind', 'variable': tag, 'expr': e.split('(')[0], 'what': 'answer_depends_on_environment'},
                              {'kind': 'envblind', 'state': ENV_STATES[tag], 'expr': e}, base[e], out.get(e)))
    return {'stats': dict(stats), 'fails': fails}


# ----------------------------------------------------------------------------------------------
# exploration: independent Selector objects on 8 real threads == sequential results

THREAD_DOCS = ['<r><a x="1">t</a><b><a>u</a><c/></b><a>t</a></r>', '<r><b y="2"/><b>5</b><b>7</b></r>']
THREAD_EXPRS = [
    '//a', '//a/..', '//a[last()]', 'count(//*)', '//b/following::*', '//@*', 'string-join(//a, "|")',
    'sum(//b[. castable as xs:integer])', 'for $x in //a return string($x)', 'distinct-values(//a)',
    'index-of((1,2,3,2), 2)', 'reverse(1 to 5)', 'subsequence(1 to 10, 3, 4)', 'matches("abc", "\\p{L}+")',
    'replace("a1b22", "\\d+", "#")', 'tokenize("a b  c", "\\s+")', 'matches("\u00e9", "[\\p{IsLatin-1Supplement}]")',
    'upper-case("abc")', 'substring("12345", 2, 3)', 'compare("a", "b")', 'contains("abc", "b")',
    'xs:decimal("1.5") * 3', '10 idiv 3', '7 mod 2', 'round(2.5)', 'xs:date("2020-02-29") + xs:yearMonthDuration("P1Y")',
    'deep-equal(//a, //a)', 'some $x in (1,2,3) satisfies $x > 2', 'string-length(string(/r))', 'name(/*)',
    'sort((3,1,2))', 'map:keys(map{"a":1,"b":2})', 'array:size([1,2,3])', 'parse-json("[1,2]")?2',
    'fold-left(1 to 5, 0, function($a,$b){$a+$b})', 'for-each((1,2,3), function($x){$x*2})',
    "compare('a','B','C.utf8')", "distinct-values(('a','b','a'),'C.utf8')", "max(('a','b'),'C.utf8')",
    "sort(('b','a'),'C.utf8')", "contains('abc','b','http://www.w3.org/2013/collation/UCA?lang=C')",
    'analyze-string("a1", "\\d")/*/string()', 'format-integer(12, "w")', 'xs:string(xs:float("1.5"))',
]


def _proj_result(v):
    if isinstance(v, list):
        return [_proj_result(x) for x in v]
    if hasattr(v, 'tag'):
        return ('elem', str(v.tag), v.text)
    return repr(v)


def threads_exploration(nthreads: int, rounds: int) -> dict:
    import xml.etree.ElementTree as ET
    from elementpath import Selector
    from elementpath.xpath31 import XPath31Parser
    docs = [ET.XML(x) for x in THREAD_DOCS]

    def build():
        return [Selector(e, parser=XPath31Parser) for e in THREAD_EXPRS]

    hang = threading.Event()

    def run_all(sels):
        out = []
        for d in docs:
            for s in sels:
                if hang.is_set():
                    out.append(('not run',))
                    continue
                try:
                    out.append(_proj_result(s.select(d)))
                except (SelfDeadlock, LockTimeout):
                    _installed_world.aborted.discard(_installed_world.tid())
                    hang.set()
                    out.append(('hung',))
                except Exception as e:
                    out.append(('raised', type(e).__name__, str(getattr(e, 'code', None))))
        return out

    # the real C library and a real lock, but acquire() has the hang detector's timeout
    w = World('real', acquire_timeout=30.0)
    w.register(99)
    install(w)
    before = snapshot_globals(w)
    expected = run_all(build())
    seq_hung = hang.is_set()
    if w.lock.locked():
        w.lock.owner = 0
        w.lock._l.release()
    hang.clear()
    results: list = [None] * nthreads

    def work(i):
        w.register(i + 1)
        sels = build()                     # independent Selector objects
        res = []
        for _ in range(rounds):
            res.append(run_all(sels))
        results[i] = res

    old = sys.getswitchinterval()
    sys.setswitchinterval(1e-6)
    try:
        ths = [threading.Thread(target=work, args=(i,), daemon=True) for i in range(nthreads)]
        for th in ths:
            th.start()
        for th in ths:
            th.join(timeout=300)
        alive = sum(th.is_alive() for th in ths)
    finally:
        sys.setswitchinterval(old)
    diffs = []
    for i, res in enumerate(results):
        if res is None:
            diffs.append({'thread': i, 'what': 'no result (hung or crashed)'})
            continue
        for rnd_i, out in enumerate(res):
            for k, (x, y) in enumerate(zip(expected, out)):
                if x != y:
                    diffs.append({'thread': i, 'round': rnd_i, 'doc': k // len(THREAD_EXPRS),
                                  'expr': THREAD_EXPRS[k % len(THREAD_EXPRS)], 'sequential': x, 'concurrent': y})
    mon = diff_globals(before, snapshot_globals(w))
    uninstall()
    if seq_hung or hang.is_set():
        mon.append('hung')
    return {'evaluations': nthreads * rounds * len(expected), 'diffs': diffs, 'alive': alive, 'monitor': mon,
            'nonerror': sum(1 for x in expected if not (isinstance(x, tuple) and x and x[0] == 'raised'))}


# ----------------------------------------------------------------------------------------------
# the cross-cutting monitor on another module's vectors (Paths / C01)

def monitor_paths(chk: core.Check) -> dict:
    from ..xmlbind import Doc
    from . import c01
    wd = os.path.join(chk.scratch, 'paths')
    dot = os.path.join(wd, 'g.dot')
    os.makedirs(wd, exist_ok=True)
    consts = dict(c01.CONFIGS['quick'][1][1])
    r = tla.require_ok(tla.run_tlc('Paths', tla.cfg_text(consts, spec='Spec', invariants=['TypeOK']), wd,
                                   dump_dot=dot, workers=4), 'Paths (monitor vectors)')
    chk.model('Paths/N2 (vectors for the global-state monitor)', r)
    g = tla.load_dot(dot)
    out = g.out()
    n = hits = 0
    hit_samples = []
    base = snapshot_globals(None)
    for init in g.init:
        st0 = g.states[init]
        doc = Doc(st0['parent'], st0['kind'], 'etree')
        prefix = {init: '/'}
        dq = collections.deque([init])
        while dq:
            s = dq.popleft()
            for (d, act, args) in out[s]:
                if act == 'Root':
                    continue
                text = c01.extend(prefix[s], act, args, 'R1')[0]
                c01.ep_eval(doc, 'R1', '3.1', text, 'selector')
                n += 1
                mon = diff_globals(base, snapshot_globals(None))
                if mon:
                    hits += 1
                    if len(hit_samples) < 3:
                        hit_samples.append({'path': text, 'xml': doc.xml(), 'changed': mon})
                    uninstall()
                if d not in prefix:
                    prefix[d] = text
                    dq.append(d)
    return {'evaluations': n, 'hits': hits, 'samples': hit_samples}


# ----------------------------------------------------------------------------------------------
# the check

ALL_CONFIGS = [[], ['L1'], ['L1', 'FB'], ['L1', 'L2', 'FB']]
ALL_KINDS = {'plain', 'gen', 'lazy', 'rec'}


def _consts(threads, colls, kinds, maxcalls, configs, inits=('C',), transient=False, maxitems=1, depth=3, variant='property',
            timed=False):
    return dict(Threads=set(range(1, threads + 1)), Configs=frozenset(frozenset(c) for c in configs),
                InitLocales=set(inits), Colls=set(colls), Kinds=set(kinds), MaxCalls=maxcalls, MaxDepth=depth,
                MaxItems=maxitems, Variant=variant, Transient=transient, TimedAcquire=timed)


REPLAY_CONFIGS = {
    'quick': [
        ('1thr', dict(threads=1, colls=['cp', 'L1', 'U2', 'UFB'], kinds=ALL_KINDS, maxcalls=2, configs=ALL_CONFIGS,
                      inits=('C', 'L1'), transient=True, maxitems=2)),
        ('2thr', dict(threads=2, colls=['cp', 'L1', 'U2'], kinds=ALL_KINDS, maxcalls=1, configs=ALL_CONFIGS[:3])),
        # the pinned variant may also enter on an acquire() time-out while the other thread holds the lock
        ('2thr-timed', dict(threads=2, colls=['L1', 'U2'], kinds={'plain', 'gen'}, maxcalls=1, configs=ALL_CONFIGS[:2],
                            depth=1, timed=True)),
    ],
    'thorough': [
        ('1thr', dict(threads=1, colls=['cp', 'L1', 'L2', 'U1', 'U2', 'UFB'], kinds=ALL_KINDS, maxcalls=3,
                      configs=ALL_CONFIGS, inits=('C', 'L1'), transient=True, maxitems=2)),
        ('2thr', dict(threads=2, colls=['cp', 'L1', 'U2'], kinds=ALL_KINDS, maxcalls=1, configs=ALL_CONFIGS[:3])),
        ('2thr2', dict(threads=2, colls=['L1', 'U2'], kinds={'plain', 'gen'}, maxcalls=2, configs=ALL_CONFIGS[:3],
                       transient=True, depth=2)),
        ('3thr', dict(threads=3, colls=['L1', 'U2'], kinds={'plain', 'gen'}, maxcalls=1, configs=ALL_CONFIGS[:3], depth=1)),
        ('2thr-timed', dict(threads=2, colls=['L1', 'U2'], kinds={'plain', 'gen'}, maxcalls=2, configs=ALL_CONFIGS[:2],
                            depth=2, timed=True)),
    ],
}
DESIGN_CONFIGS = {
    'quick': [('design-property', dict(threads=2, colls=['L1', 'U2'], kinds=ALL_KINDS, maxcalls=2, configs=ALL_CONFIGS[:3]))],
    'thorough': [
        ('design-property', dict(threads=2, colls=['cp', 'L1', 'U2'], kinds=ALL_KINDS, maxcalls=2, configs=ALL_CONFIGS[:3])),
        ('design-property-3thr', dict(threads=3, colls=['L1', 'U2'], kinds=ALL_KINDS, maxcalls=1, configs=ALL_CONFIGS[:3],
                                      inits=('C', 'L1'))),
        ('design-property-3calls', dict(threads=2, colls=['L1', 'U2'], kinds={'plain', 'gen'}, maxcalls=3,
                                        configs=ALL_CONFIGS[:3], transient=True)),
    ],
}
LIVE_CONFIG = dict(threads=2, colls=['L1', 'U2'], kinds=ALL_KINDS, maxcalls=1, configs=ALL_CONFIGS[:3])
LIVE_CONFIG_THOROUGH = dict(threads=3, colls=['L1', 'U2'], kinds={'plain', 'gen'}, maxcalls=1, configs=ALL_CONFIGS[:3], depth=2)
SAFETY = ['TypeOK', 'Safety', 'NoHoldWhileSuspended']
GLOBALS_CONSTS = {
    'quick': dict(Names={'N1', 'N2'}, Objects={'token', 'selector', 'parser', 'fnitem'}, MaxHist=3,
                  Apis={'parse-xml', 'parse-xml-fragment', 'defuse_xml'},
                  EntKinds={'none', 'internal', 'internal_unused', 'external', 'parameter', 'unparsed', 'nested', 'doctype'},
                  Prologs={'ws', 'comment', 'pi', 'decl_comment'}, Sizes={0, 100, 4097, 16385, 65537},
                  RefPos={'content', 'attr'}, Decls=set(XML_DECLS), SeqFns=set(SEQ_FNS), Consumes=set(CONSUMES),
                  Mags=set(MAGS),
                  Ops={'div', 'round', 'mul', 'sum', 'big', 'format', 'format_big', 'format_big_double', 'random',
                       'random-permute', 'random-next'}),
    'thorough': dict(Names={'N1', 'N2', 'N3'}, Objects={'token', 'selector', 'parser', 'fnitem'}, MaxHist=3,
                     Apis={'parse-xml', 'parse-xml-fragment', 'defuse_xml'}, EntKinds=set(ENT_DECL),
                     Prologs={'ws', 'comment', 'pi', 'decl_comment'},
                     Sizes={0, 1, 100, 4095, 4096, 4097, 16383, 16384, 16385, 65537, 1048577},
                     RefPos={'content', 'attr'}, Decls=set(XML_DECLS), SeqFns=set(SEQ_FNS), Consumes=set(CONSUMES),
                     Mags=set(MAGS), Ops=set(DEC_OPS)),
}
_live_re = re.compile(r'Temporal propert(?:y|ies) .*violated')
_act_re = re.compile(r'^State \d+: <(\w+(?:\([^)]*\))?)', re.M)


def _report(chk: core.Check, feat: dict, case: dict, exp, obs, what: str, count: int) -> None:
    chk.fail(feat, case, exp, obs, what)
    if count > 1:
        for idx, kf in enumerate(chk.known):
            if core.match_pattern(kf['fingerprint'], core.jsonable(feat)):
                chk.known_hits[idx] = chk.known_hits.get(idx, 0) + count - 1
                break


def _in_child(fn, arg, timeout=1800):
    import multiprocessing as mp
    with mp.get_context('fork').Pool(1) as pool:
        try:
            return pool.apply_async(fn, (arg,)).get(timeout=timeout)
        except mp.TimeoutError:
            raise tla.MachineryError(f'{fn.__name__} did not finish within {timeout}s (a hang the detectors missed)')


def _threads_job(arg):
    return threads_exploration(*arg)


def run(chk: core.Check) -> None:
    core.setup_repo_path()
    tier = chk.tier
    self_test()
    chk.assumptions += [
        'spec/CollationLock.tla (property variant) is the oracle of the lock/locale mechanism; TLC proves its safety invariants '
        'and liveness within the listed constants before anything is replayed; the pinned variant must violate NoLockLeak, '
        'NoSelfWait, NoStuck and EveryCallReturns (else exit 2)',
        'locale._setlocale is scripted: abstract locales L1/L2/FB stand for de_DE.UTF-8/it_IT.UTF-8/en_US.UTF-8 (simulated, any '
        'installed-locale configuration) and for C.utf8/de_DE.UTF-8/en_US.UTF-8 on the real C library (configuration {L1} only)',
        'the collation ORDER, a failing restore inside __exit__, flags of the decimal context and DOCTYPEs that declare no '
        'entity are outside the property',
        'XPath2Parser.__init__ reads LC_COLLATE without the lock; Selectors are compiled before the gated section starts',
        'thread runs with sys.setswitchinterval(1e-6) (8 threads, stress traces) are exploration; the gated replays are exhaustive '
        'over the dumped TLC graphs',
    ]
    rnd = random.Random(chk.seed)

    # ---- stage A: real evaluations that produce the logs (fork pools, no helper threads yet) ----
    t0 = time.time()
    cases = eval_cases(tier, chk.seed)
    sites, missing_sites = discover_call_sites()
    if len(sites) < 10:
        raise tla.MachineryError(f'call-site discovery found only {len(sites)} functions with a collation parameter')
    n_generic = len(cases)
    cases += sweep_cases(sites, tier)
    jobs, tr = [], 1
    for ch in core.chunked(cases, 16):
        jobs.append((ch, tr))
        tr += len(ch)
    eval_recs, eval_log = [], []
    for recs, log in core.pool_map(eval_chunk, jobs, procs=8):
        eval_recs += recs
        eval_log += log
    n_stress = 6 if tier == 'quick' else 24
    sjobs = []
    for k in range(n_stress):
        mode, inst = [('real', ['L1']), ('sim', ['L1']), ('sim', ['L1', 'FB']), ('sim', [])][k % 4]
        sjobs.append(((mode, inst, 2 + k % 2, 30 if tier == 'quick' else 60, chk.seed * 1000 + k), tr))
        tr += 1
    stress_recs, stress_log = [], []
    for recs, log in core.pool_map(stress_chunk, [[j] for j in sjobs], procs=6):
        stress_recs += recs
        stress_log += log
    thr = _in_child(_threads_job, (8, 3 if tier == 'quick' else 12))
    prace = _in_child(parser_locale_race, None)
    print(f'  stage A: {len(eval_recs)} monitored evaluations ({len(eval_log)} events), {len(stress_recs)} stress traces '
          f'({len(stress_log)} events), {thr["evaluations"]} threaded evaluations  {time.time() - t0:.1f}s', flush=True)

    # ---- stage B: everything TLC, in parallel ---------------------------------------------------
    t0 = time.time()
    sd = chk.scratch

    def tlc_lock(name, consts, invs=(), props=(), spec='Spec', dump=False, workers=4):
        wd = os.path.join(sd, name)
        dot = os.path.join(wd, 'g.dot') if dump else None
        cfg = tla.cfg_text(consts, spec=spec, invariants=list(invs), properties=list(props))
        r = tla.run_tlc('CollationLock', cfg, wd, workers=workers, dump_dot=dot, timeout=3000)
        return name, r, dot

    tasks = []
    ex = ThreadPoolExecutor(max_workers=5)
    design = DESIGN_CONFIGS[tier]
    for dname, dkw in design:
        tasks.append(ex.submit(tlc_lock, dname, _consts(**dkw), SAFETY, workers=8))
    live = LIVE_CONFIG
    tasks.append(ex.submit(tlc_lock, 'live-property', _consts(**live), (), ['EveryCallReturns'], 'FairSpec'))
    if tier == 'thorough':
        tasks.append(ex.submit(tlc_lock, 'live-property-3thr', _consts(**LIVE_CONFIG_THOROUGH), (), ['EveryCallReturns'], 'FairSpec'))
    pin = dict(LIVE_CONFIG, variant='pinned')
    for inv in ('NoLockLeak', 'NoSelfWait', 'NoStuck'):
        tasks.append(ex.submit(tlc_lock, f'pinned-{inv}', _consts(**pin), [inv], workers=2))
    tasks.append(ex.submit(tlc_lock, 'pinned-live', _consts(**pin), (), ['EveryCallReturns'], 'FairSpec', False, 2))
    tasks.append(ex.submit(tlc_lock, 'pinned-mutex', _consts(**dict(pin, timed=True)), ['MutualExclusion'], workers=2))
    rec_kw = dict(threads=1, colls=['cp', 'L1', 'U2'], kinds={'rec'}, maxcalls=2, configs=ALL_CONFIGS[:3])
    tasks.append(ex.submit(tlc_lock, 'pinned-rec', _consts(variant='pinned', **rec_kw), ['NoSelfWait'], workers=2))
    tasks.append(ex.submit(tlc_lock, 'property-rec', _consts(**rec_kw), SAFETY, workers=2))
    for name, kw in REPLAY_CONFIGS[tier]:
        for variant in ('property', 'pinned'):
            tasks.append(ex.submit(tlc_lock, f'graph-{name}-{variant}', _consts(variant=variant, **kw), ['TypeOK'], dump=True))

    def tlc_globals():
        wd = os.path.join(sd, 'globals')
        dot = os.path.join(wd, 'g.dot')
        cfg = tla.cfg_text(GLOBALS_CONSTS[tier], invariants=['TypeOK', 'BlindByDefault', 'HistoryBlind', 'NonInterference',
                                                               'AllowedIsExact', 'NeverExpanded', 'PositionBlind', 'DeclarationBlind',
                                                               'CollationBlind'], properties=['EvalPreserves'])
        return 'globals', tla.run_tlc('Globals', cfg, wd, workers=2, dump_dot=dot), dot
    tasks.append(ex.submit(tlc_globals))
    def tlc_lazy(variant):
        cfg = tla.cfg_text(dict(Threads={1, 2, 3}, Variant=variant), invariants=['TypeOK', 'ReadsFinished', 'DoneMeansReady'])
        return tla.run_tlc('LazyCache', cfg, os.path.join(sd, 'lazy-' + variant), workers=2)
    f_lazy = {v: ex.submit(tlc_lazy, v) for v in ('property', 'pinned')}
    f_fresh = ex.submit(fresh_process_families, tier)
    f_mon = ex.submit(monitor_paths, chk)
    f_ev = ex.submit(validate_traces, chk, eval_log, 'evals', 1, 4 if tier == 'quick' else 8)
    f_st = ex.submit(validate_traces, chk, stress_log, 'stress', 3, 2 if tier == 'quick' else 6)
    # binding self-test on hand-written traces (independent of the code under test): the canonical trace of
    # one compare() is accepted, the same trace without its `release` and one with a corrupted field are not
    def _tr(tr, evs):
        out = [{'tr': tr, 't': 0, 's': 0, 'e': 'reset', 'v': '', 'r': '', 'inst': ['L1'], 'lc0': 'C'}]
        for k, (e, v, r_) in enumerate(evs):
            out.append({'tr': tr, 't': 1, 's': k + 1, 'e': e, 'v': v, 'r': r_, 'inst': [], 'lc0': ''})
        return out
    canon = [('begin', '', ''), ('acquire', '', ''), ('query', 'C', ''), ('set', 'L1', 'ok'), ('set', 'C', 'ok'),
             ('release', '', ''), ('end', '', 'value')]
    st_log = (_tr(900001, [e for e in canon if e[0] != 'release']) + _tr(900002, canon) +
              _tr(900003, [(e, 'L1' if (e, v) == ('set', 'C') else v, r_) for e, v, r_ in canon]))
    f_self = ex.submit(validate_traces, chk, st_log, 'selftest', 1, 2)

    results = {}
    for f in tasks:
        name, r, dot = f.result()
        results[name] = (r, dot)
        print(f'    tlc {name}: {r.distinct} states {r.wall_s:.1f}s', flush=True)
    mon = f_mon.result()
    r = tla.require_ok(f_lazy['property'].result(), 'LazyCache/property', min_distinct=20)
    chk.model('LazyCache/property', r)
    r = f_lazy['pinned'].result()
    if r.violated != 'ReadsFinished':
        raise tla.MachineryError('LazyCache: the early-publish variant does not violate ReadsFinished')
    chk.model('LazyCache/pinned (ReadsFinished violated through PublishEmpty, as expected)', r)
    fresh = f_fresh.result()
    ev_acc, ev_rej = f_ev.result()
    st_acc, st_rej = f_st.result()
    self_acc, self_rej = f_self.result()
    ex.shutdown()
    print(f'  stage B: {len(results) + 4} TLC tasks  {time.time() - t0:.1f}s', flush=True)

    # the design
    for name in [d[0] for d in design] + ['live-property', 'live-property-3thr', 'globals']:
        if name in results:
            r = tla.require_ok(results[name][0], name, min_distinct=40)
            if _live_re.search(r.output):
                raise tla.MachineryError(f'{name}: liveness violated in the property variant')
            chk.model(('Globals/' if name == 'globals' else 'CollationLock/') + name, r)
    cex = {}
    for inv in ('NoLockLeak', 'NoSelfWait', 'NoStuck'):
        r = results[f'pinned-{inv}'][0]
        if r.violated != inv:
            raise tla.MachineryError(f'the pinned variant of CollationLock does not violate {inv}: the as-implemented model '
                                     f'is wrong\n' + '\n'.join(r.output.splitlines()[-20:]))
        cex[inv] = _act_re.findall(r.output)
        chk.model(f'CollationLock/pinned-{inv} (violated as expected)', r)
    r = results['pinned-mutex'][0]
    cex['MutualExclusion (timed acquire, result ignored)'] = _act_re.findall(r.output)
    if r.violated != 'MutualExclusion' or not any(a.startswith('EnterWithoutLock') for a in cex['MutualExclusion (timed acquire, result ignored)']):
        raise tla.MachineryError('the pinned variant with TimedAcquire does not violate MutualExclusion through EnterWithoutLock')
    chk.model('CollationLock/pinned-mutex (MutualExclusion violated through EnterWithoutLock, as expected)', r)
    r = results['pinned-rec'][0]
    cex['NoSelfWait (re-entrant call site)'] = _act_re.findall(r.output)
    if r.violated != 'NoSelfWait' or not any(a.startswith('ReenterHolding') for a in cex['NoSelfWait (re-entrant call site)']):
        raise tla.MachineryError('the pinned variant does not show the self-wait of a re-entrant call site '
                                 f'(ReenterHolding): {cex["NoSelfWait (re-entrant call site)"]}')
    chk.model('CollationLock/pinned-rec (NoSelfWait violated through ReenterHolding, as expected)', r)
    chk.model('CollationLock/property-rec', tla.require_ok(results['property-rec'][0], 'property-rec', min_distinct=20))
    r = results['pinned-live'][0]
    if not _live_re.search(r.output):
        raise tla.MachineryError('the pinned variant satisfies EveryCallReturns: the as-implemented model is wrong')
    cex['EveryCallReturns'] = _act_re.findall(r.output)
    chk.model('CollationLock/pinned-live (violated as expected)', r)
    chk.coverage['pinned_counterexamples'] = cex
    chk.coverage['constants'] = {
        'design': {n: {k: (sorted(v) if isinstance(v, (set, frozenset)) else v) for k, v in kw.items()} for n, kw in design},
        'replay': {n: {k: (sorted(v) if isinstance(v, (set, frozenset)) else v) for k, v in kw.items()}
                   for n, kw in REPLAY_CONFIGS[tier]},
        'globals': {k: (sorted(v) if isinstance(v, (set, frozenset)) else v) for k, v in GLOBALS_CONSTS[tier].items()}}
    if set(self_acc) != {900002} or sorted(x[0] for x in self_rej) != [900001, 900003]:
        raise tla.MachineryError(f'binding B self-test: accepted={sorted(self_acc)} rejected={[x[0] for x in self_rej]} '
                                 f'(the canonical trace must be accepted, the ones without release / with a wrong restore rejected)')

    # ---- stage C: binding A -------------------------------------------------------------------
    t0 = time.time()
    want_acts = {'Call', 'Acquire', 'ReadCurrent', 'SetLocale', 'Fallback', 'RaiseFromEnter', 'Exit', 'ExitGen', 'Unwind',
                 'Yield', 'Return', 'Resume', 'Abandon', 'Enter0'}
    classes: dict = {}
    tot = collections.Counter()
    for name, kw in REPLAY_CONFIGS[tier]:
        _GRAPHS.clear()
        edges_total = {}
        for variant in ('property', 'pinned'):
            r, dot = results[f'graph-{name}-{variant}']
            tla.require_ok(r, f'graph-{name}-{variant}', min_distinct=100)
            chk.model(f'CollationLock/graph-{name}-{variant}', r)
            _GRAPHS[variant] = G(tla.load_dot(dot), variant)
            os.remove(dot)
            seen = {e[2] for e in _GRAPHS[variant].edges}
            need = set(want_acts) | ({'LeakRaise', 'YieldHolding'} if variant == 'pinned' else set())
            if 'lazy' in kw['kinds']:
                need |= {'CallArg', 'ResumeLazy'} | ({'LeaveHolding'} if variant == 'pinned' else {'EvalArgs'})
            if 'rec' in kw['kinds']:
                need |= {'ReenterHolding'} if variant == 'pinned' else {'Recurse'}
            if kw['threads'] > 1:
                need |= {'LongHold'}
            if kw.get('timed') and variant == 'pinned':
                need |= {'EnterWithoutLock'}
            missing = need - seen - ({'Resume', 'Abandon', 'Yield', 'Return', 'ExitGen'} if 'gen' not in kw['kinds'] else set()) \
                - (set() if 'cp' in kw['colls'] else {'Enter0'}) \
                - (set() if 'cp' in kw['colls'] or variant == 'property' else {'ExitGen', 'Yield', 'Return'})
            if missing:
                raise tla.MachineryError(f'graph-{name}-{variant}: actions never fired: {sorted(missing)} (vacuous model)')
        jobs = []
        for variant in ('property', 'pinned'):
            g = _GRAPHS[variant]
            keep = (lambda e: not (e[2] == 'ArgError' or (e[2] == 'Call' and e[3][2] == 'lazy'))) if variant == 'property' \
                else (lambda e: True)
            paths, covered = cover_paths(g, keep, rnd)
            edges_total[variant] = (covered, len(g.edges))
            for i, p in enumerate(paths):
                jobs.append((variant, 'sim', i, p))
                S0 = g.states[g.edges[p[0]][0]]
                if S0['inst'] == frozenset({'L1'}) and S0['lc0'] == 'C' and i % 3 == 0 and \
                        not _needs_transient(g, p):
                    jobs.append((variant, 'real', i, p))       # the sandbox's own C library
        rnd.shuffle(jobs)
        validated = {'property': set(), 'pinned': set()}
        for chunk in core.pool_map(replay_chunk, core.chunked(jobs, 128)):
            for rec, job in chunk:
                tot['replays'] += 1
                tot['ops'] += rec['events']
                tot['threads_left'] += rec['threads_left']
                validated[job[0]].update(job[3][:rec['matched']])
                if rec['verdict'] == 'machinery':
                    raise tla.MachineryError('binding A: ' + rec['what'])
                if rec.get('note'):
                    tot[rec['note']] += 1
                if len(job[3]) >= 8 and (rec['devs'] or job[0] == 'property'):
                    tot['nontrivial'] += 1
                if rec['verdict'] == 'fail':
                    key = json.dumps(rec['features'], sort_keys=True)
                    ent = classes.get(key)
                    if ent is None:
                        classes[key] = [rec, 1]
                    else:
                        ent[1] += 1
                elif 'sample' in rec and rec['result'] == 'conform' and rec['events'] > 8:
                    chk.sample(rec['sample'], cap=4)
        for variant in ('property', 'pinned'):
            tot['transitions'] += len(validated[variant])
            tot[f'edges_{variant}_validated'] += len(validated[variant])
            tot[f'edges_{variant}_planned'] += edges_total[variant][0]
            tot[f'edges_{variant}_total'] += edges_total[variant][1]
        print(f'  binding A {name}: {len(jobs)} behaviours, validated transitions property '
              f'{len(validated["property"])}/{edges_total["property"][0]} pinned {len(validated["pinned"])}/'
              f'{edges_total["pinned"][0]}', flush=True)
    _GRAPHS.clear()
    for key, (rec, cnt) in classes.items():
        _report(chk, rec['features'], rec['case'], rec['expected'], rec['observed'],
                'behaviour ' + ' '.join(rec['case']['actions'][:14]), cnt)
        chk.sample(rec['sample'], cap=8)
    if tot['threads_left']:
        chk.note(f'{tot["threads_left"]} replay threads did not terminate after tear-down')
    if tot['pinned_model_outdated']:
        chk.note(f'{tot["pinned_model_outdated"]} behaviours of the pinned variant are no longer followed by the code '
                 f'(it does what the property variant says there)')
    chk.add('transitions', tot['transitions'])
    chk.add('traces_validated_against_impl', tot['replays'])
    chk.add('evaluations', tot['replays'])
    chk.add('distinct_nontrivial', tot['nontrivial'])
    chk.coverage['binding_A'] = {k: v for k, v in tot.items()}
    print(f'  stage C binding A: {tot["replays"]} behaviours replayed, {tot["transitions"]} distinct transitions validated '
          f'{time.time() - t0:.1f}s', flush=True)

    # ---- binding B + API-level verdicts ------------------------------------------------------------
    rej_ids = {x[0]: x[1] for x in ev_rej + st_rej}
    groups: dict = {}
    lockpath = 0
    faults_of: dict = {}
    for e in eval_log:
        if e['e'] == 'set' and e['r'] in ('fail', 'crash'):
            faults_of.setdefault(e['tr'], set()).add(e['r'])
    for rec in eval_recs:
        a = ev_acc.get(rec['tr'])
        if a is None:
            dev, bad = ['unmodelled'], []
        else:
            pref = {'rec': 'ReenterHolding', 'lazy': 'LeaveHolding', 'gen': 'YieldHolding'}.get(
                (rec['case'].get('sweep') or {}).get('kind'))
            dev, bad = min(a, key=lambda x: (len(x[0]), len(x[1]), 0 if pref in x[0] else 1, x[0]))
        obs = list(rec['obs'])
        if ('lock_leak' in bad) != ('lock_held' in obs) and a is not None:
            obs.append('inconsistent')
        if rec['case']['A'] != 'cp' or (rec['case']['B'] or 'cp') != 'cp':
            lockpath += 1
        if dev == ['unmodelled'] or bad or obs:
            feat = {'part': 'eval', 'deviation': '+'.join(dev) or 'none', 'consequence': '+'.join(bad) or 'none',
                    'observable': '+'.join(sorted(obs)) or 'none', 'outcome': rec['outcome'][0],
                    'fault': 'crash' if 'crash' in faults_of.get(rec['tr'], ()) else
                    ('fail' if faults_of.get(rec['tr']) else 'none')}
            if rec['case'].get('sweep'):
                sw = rec['case']['sweep']
                feat.update(part='sweep', fn=sw['fn'], shape=sw['shape'], coll=sw['coll'])
            key = json.dumps(feat, sort_keys=True)
            ent = groups.get(key)
            if ent is None:
                case = dict(rec['case'], kind='eval')
                groups[key] = [feat, case, rec, 1, rej_ids.get(rec['tr'])]
            else:
                ent[3] += 1
    for key, (feat, case, rec, cnt, rejline) in groups.items():
        _report(chk, feat, case,
                'LC_COLLATE, lock, decimal context, os.environ as before; a later compare() completes with the same answer; '
                'the event log is a behaviour of the property variant',
                {'outcome': rec['outcome'], 'violated_observables': rec['obs'], 'later_probe': rec['probe'],
                 'lc_collate_after': rec['lc_after'], 'first_unmatched_event': rejline},
                f'{case["expr"]} vars={case["vars"]} world={case["mode"]}/{case["inst"]}/{case["lc0"]}', cnt)
    for rec in eval_recs[:: max(1, len(eval_recs) // 4)][:3]:
        chk.sample({'part': 'eval', 'expr': rec['case']['expr'], 'vars': rec['case']['vars'], 'world': [rec['case']['mode'],
                    rec['case']['inst'], rec['case']['lc0']], 'outcome': rec['outcome'], 'violated_observables': rec['obs']}, cap=12)
    for rec in stress_recs:
        a = st_acc.get(rec['tr'])
        dev, bad = (['unmodelled'], []) if a is None else min(a, key=lambda x: (len(x[0]), len(x[1])))
        if dev == ['unmodelled'] or bad or rec['obs']:
            feat = {'part': 'stress', 'deviation': '+'.join(dev) or 'none', 'consequence': '+'.join(bad) or 'none',
                    'observable': '+'.join(sorted(rec['obs'])) or 'none'}
            _report(chk, feat, rec['case'], 'trace accepted by TraceCollation without property violation; sequential answers',
                    {'diffs': rec['diffs'], 'first_unmatched_event': rej_ids.get(rec['tr'])}, 'seeded stress run', 1)
    n_traces = len(eval_recs) + len(stress_recs)
    chk.add('traces_validated_against_impl', n_traces)
    chk.add('evaluations', 3 * len(eval_recs) + sum(r['evaluations'] for r in stress_recs))
    chk.add('distinct_nontrivial', lockpath)
    sw_recs = [r for r in eval_recs if r['case'].get('sweep')]
    chk.coverage['call_site_sweep'] = {
        'functions_with_collation_parameter (fn, arity, position; discovered in the live XPath31Parser by probing)':
            [[x['fn'], x['arity'], x['pos']] for x in sites],
        'expected_by_F&O_but_not_found': missing_sites,
        'shapes': {k: v[0] for k, v in SHAPES.items()},
        'collation_classes': sorted({r['case']['sweep']['coll'] for r in sw_recs}),
        'evaluations': len(sw_recs),
        'outcomes': dict(collections.Counter(r['outcome'][0] for r in sw_recs)),
        'spec_call_labels (collation class, frame kind) exercised': sorted({(r['case']['sweep']['coll'], r['case']['sweep']['kind'])
                                                                              for r in sw_recs}),
        'monitor': 'every evaluation: hang detector; afterwards lock free, LC_COLLATE text, decimal context, os.environ, '
                   'a later compare() and default-collation() answer as before; its event log validated by TraceCollation'}
    if missing_sites:
        chk.note(f'functions with a collation parameter in F&O 3.1 that the parser does not offer: {missing_sites}')
    chk.coverage['binding_B'] = {'eval_traces': len(eval_recs), 'eval_events': len(eval_log), 'stress_traces': len(stress_recs),
                                 'stress_events': len(stress_log), 'rejected': len(ev_rej) + len(st_rej),
                                 'eval_traces_on_lock_path': lockpath,
                                 'self_test': 'canonical trace accepted; without its release: rejected; restoring the wrong locale: rejected'}

    # ---- Globals ---------------------------------------------------------------------------------
    r, dot = results['globals']
    g = tla.load_dot(dot)
    order, seen, dq = [], set(g.init), collections.deque(g.init)
    out = g.out()
    while dq:
        s = dq.popleft()
        order.append(s)
        for (d, a, args) in out[s]:
            if d not in seen:
                seen.add(d)
                dq.append(d)
    need = {'EnvVar', 'AvailVars', 'ParseXml', 'Decimal', 'DefaultCollation', 'SeqEval', 'SetVar', 'UnsetVar'}
    if need - {e[2] for e in g.edges}:
        raise tla.MachineryError(f'Globals: actions never fired: {sorted(need - {e[2] for e in g.edges})}')
    gjobs = []
    for sid in order:
        edges = [e for e in out[sid] if e[1] in ('ParseXml', 'Decimal', 'DefaultCollation', 'SeqEval')]
        for i in range(0, len(edges), 160):
            gjobs.append(({sid: g.states[sid], **{e[0]: g.states[e[0]] for e in edges[i:i + 160]}}, [sid],
                          {sid: edges[i:i + 160]}, chk.seed + i))
    stats: collections.Counter = collections.Counter()
    gfails, gsamples = [], []
    for st_, fl_, sm_ in core.pool_map(globals_worker, gjobs, procs=8):
        stats.update(st_)
        gfails += fl_
        gsamples += sm_
    # the environment gate: every history of <= MaxHist evaluations through one object
    epaths = envgate_paths(g.states, g.init, out, 1)          # exhaustive: at most one change of os.environ
    if tier == 'thorough':                                    # plus a seeded sample of the histories with two
        extra = [p_ for p_ in envgate_paths(g.states, g.init, out, 2)
                 if sum(1 for (_, e) in p_ if e[1] in ('SetVar', 'UnsetVar')) == 2]
        epaths += rnd.sample(extra, min(20000, len(extra)))
    estates = g.states
    estats: collections.Counter = collections.Counter()
    for st_, fl_, sm_ in core.pool_map(envgate_worker, [(estates, ch, chk.seed) for ch in core.chunked(epaths, 8)], procs=8):
        estats.update(st_)
        gfails += fl_
        gsamples += sm_
    stats.update(estats)
    gg: dict = {}
    for feat, case, exp, obs in gfails:
        key = json.dumps(feat, sort_keys=True)
        gg.setdefault(key, [feat, case, exp, obs, 0])[4] += 1
    for feat, case, exp, obs, cnt in gg.values():
        what = f'{case["expr"]} {case["vars"]} env={case["env"]}' if case['kind'] == 'globals' else \
            f'{case["object"]} {case["fun"]} env0={case["env0"]} steps={case["steps"]}'
        _report(chk, feat, case, exp, obs, what, cnt)
    for s in gsamples[:2] + [x for x in gsamples if x.get('part') == 'envgate'][:1]:
        chk.sample(s, cap=12)
    chk.add('transitions', stats.get('transitions', 0))
    chk.add('evaluations', stats.get('evaluations', 0))
    chk.add('distinct_nontrivial', stats.get('nontrivial', 0))
    chk.add('traces_validated_against_impl', len(order) + len(epaths))
    stats = dict(stats, envgate_histories=len(epaths), envgate_evaluations=estats.get('evaluations', 0))
    chk.coverage['globals'] = stats

    if not prace['entered']:
        chk.note('parser/locale race: the holder thread never reached its setlocale (scenario not exercised)')
    elif prace['concurrent'] != prace['sequential']:
        _report(chk, {'part': 'parser_race', 'what': 'default_collation_read_without_lock'},
                {'kind': 'parser_race'}, prace['sequential'], prace['concurrent'],
                'XPath31Parser() built while another thread is inside a collation critical section', 1)
    chk.add('evaluations', 2)
    chk.coverage['parser_locale_race'] = prace

    # ---- fresh processes: lazy caches at first use, environment blindness of every expression --------------
    fg: dict = {}
    for feat, case, exp, obs in fresh['fails']:
        fg.setdefault(json.dumps(feat, sort_keys=True), [feat, case, exp, obs, 0])[4] += 1
    for feat, case, exp, obs, cnt in fg.values():
        _report(chk, feat, case, exp, obs, str(case), cnt)
    fst = fresh['stats']
    if not fst.get('lazy_windows_open'):
        chk.note('no lazily cached builder could be delayed (instrumentation_missing): the first-use races ran unscripted')
    chk.add('evaluations', fst.get('lazy_evaluations', 0) * 2 + fst.get('env_evaluations', 0))
    chk.add('traces_validated_against_impl', fst.get('lazy_processes', 0) + fst.get('env_processes', 0))
    chk.add('distinct_nontrivial', fst.get('lazy_windows_open', 0) + fst.get('env_processes', 0))
    chk.coverage['fresh_processes'] = dict(fst, label='each case in its own fresh interpreter: (a) threads meet at the first use '
                                           'of a lazily built process-wide cache while its builder is delayed (spec/LazyCache.tla '
                                           'Window), results == sequential; (b) every zero-argument function + extra expressions '
                                           'under default settings give the same answers whatever LANG/LC_ALL/LANGUAGE/LC_MESSAGES/'
                                           'TZ/HOME/PATH say (Globals NonInterference for every expression)')

    # ---- monitor on C01 vectors, thread exploration --------------------------------------------------
    chk.add('evaluations', mon['evaluations'])
    chk.coverage['monitor_on_paths_vectors'] = {'evaluations': mon['evaluations'], 'hits': mon['hits']}
    for s in mon['samples']:
        _report(chk, {'part': 'monitor', 'changed': '+'.join(s['changed'])}, {'kind': 'monitor', **s},
                'process globals unchanged', s['changed'], s['path'], 1)
    chk.add('evaluations', thr['evaluations'])
    chk.coverage['exploration_threads'] = {'threads': 8, 'evaluations': thr['evaluations'], 'differences': len(thr['diffs']),
                                           'label': 'exploration (not model checking): independent Selector objects, '
                                                    'sys.setswitchinterval(1e-6), compared with the sequential results'}
    if thr['diffs'] or thr['alive'] or thr['monitor']:
        d = thr['diffs'][0] if thr['diffs'] else {}
        _report(chk, {'part': 'threads', 'what': 'hung' if thr['alive'] else ('globals' if thr['monitor'] and not thr['diffs'] else 'answer'),
                      'expr': d.get('expr', '')},
                {'kind': 'threads', 'threads': 8, 'rounds': 3}, d.get('sequential'), d.get('concurrent') or thr['monitor'],
                'independent Selectors on 8 threads', max(1, len(thr['diffs'])))
    chk.coverage['exhaustive'] = True
    chk.coverage['rule'] = (
        'binding A: a path cover of EVERY transition of the dumped CollationLock graphs (property and pinned variant, constants '
        'in coverage.constants) is replayed on real threads under the gate; a transition counts as validated when the real '
        'hook events and (lock owner, LC_COLLATE) agreed with the model up to and including it; non-trivial = behaviour of >= 8 '
        'actions that contains a fault, a generator suspension, an operand call or a second thread. binding B: every monitored '
        'evaluation / stress run is one trace validated by TLC; non-trivial = the expression takes the lock path. Globals: every '
        'transition of the graph x {etree,lxml} x {3.0,3.1}.')


def _needs_transient(g: G, p) -> bool:
    """Does the behaviour fail a setlocale of an installed locale (only the simulation can do that)?"""
    for ei in p:
        s, d, act, args = g.edges[ei]
        if act in ('SetLocale', 'Fallback') and args[1] == 'fail':
            S = g.states[s]
            idx, f = acting_frame(S, act, args)
            loc = LOC[f['c']] if act == 'SetLocale' else 'FB'
            if loc in S['inst']:
                return True
    return False


def replay_envgate(case: dict) -> list:
    """Re-run one recorded environment-gate history on a fresh object; returns the projected answers."""
    import elementpath
    import xml.etree.ElementTree as ET
    from elementpath import XPathContext
    from elementpath.xpath30 import XPath30Parser
    from elementpath.xpath31 import XPath31Parser
    pc = {'3.0': XPath30Parser, '3.1': XPath31Parser}[case['parser']]
    rt = ET.XML('<r><a>x</a></r>')
    kind, fun = case['object'], case['fun']
    os.environ.clear()
    for a in case['env0']:
        os.environ[NAME_BIND[a]] = env_value(NAME_BIND[a])
    expr = 'environment-variable($n)' if fun == 'envvar' else 'available-environment-variables()'
    parser = pc()
    thing = parser.parse(expr) if kind == 'token' else elementpath.Selector(expr, parser=pc) if kind == 'selector' \
        else parser if kind == 'parser' else None
    out = []
    for act, args in case['steps']:
        if act == 'SetVar':
            os.environ[NAME_BIND[args[0]]] = env_value(NAME_BIND[args[0]])
            out.append(('app',))
            continue
        if act == 'UnsetVar':
            os.environ.pop(NAME_BIND[args[0]], None)
            out.append(('app',))
            continue
        allow = args[-1]
        name = NAME_BIND[args[0]] if act == 'EnvVar' else None
        kw = {'allow_environment': True} if allow else {}
        var = {'n': name} if name is not None else {}
        try:
            if kind == 'token':
                v = thing.evaluate(XPathContext(rt, variables=var, **kw))
            elif kind == 'selector':
                v = thing.select(rt, variables=var, **kw)
            elif kind == 'parser':
                v = thing.parse(expr).evaluate(XPathContext(rt, variables=var, **kw))
            elif thing is None:
                thing = elementpath.Selector('environment-variable#1' if fun == 'envvar' else
                                             'available-environment-variables#0', parser=pc).select(rt, **kw)
                out.append(('item',) if callable(thing) else ('raised', str(thing)[:60]))
                continue
            else:
                ctx = XPathContext(rt, **kw)
                v = thing(name, context=ctx) if fun == 'envvar' else thing(context=ctx)
            out.append(project_globals(act, ('value', v)))
        except Exception as e:
            out.append(('raised', type(e).__name__))
    return out


def replay(rec: dict) -> int:
    core.setup_repo_path()
    case = rec['case']
    kind = case.get('kind')
    print('features :', rec.get('features'))
    print('expected :', rec.get('expected'))
    if kind == 'plan':
        res = execute_plan(case['plan'])
        print('actions  :', case['actions'])
        print('exprs    :', case['plan']['exprs'])
        print('observed :', {k: res.get(k) for k in ('kind', 'step', 'expected', 'observed', 'waits', 'locked_at_end')})
        dev = rec['features'].get('deviation')
        reproduces = (res['kind'] == 'conform') if rec['features'].get('consequence') != 'diverges' and dev in DEVIATIONS \
            else (res['kind'] != 'conform')
    elif kind == 'eval':
        log: list = []
        case = dict(case)
        case['_baseline'] = baseline(case['mode'], case['inst'], case['lc0'])
        r = eval_case(case, log, 1)
        print('expr     :', case['expr'], case.get('vars'))
        print('events   :', [(e['e'], e['v'], e['r']) for e in log])
        print('observed :', r['outcome'], 'violated observables', r['obs'], 'later probe', r['probe'])
        reproduces = bool(r['obs']) or r['outcome'][0] in ('self_wait', 'hung', 'hung_alarm')
    elif kind == 'globals':
        import elementpath
        import xml.etree.ElementTree as ET
        import lxml.etree as LET
        from elementpath.xpath30 import XPath30Parser
        from elementpath.xpath31 import XPath31Parser
        os.environ.clear()
        for n in case['env']:
            os.environ[n] = env_value(n)
        rt = (ET if case['lib'] == 'etree' else LET).XML('<r><a>x</a></r>')
        if case['action'] == 'ParseXml':
            case['vars'] = {'x': entity_text(*case['args'][1:])}
        dec0 = dec_state()
        try:
            if case['action'] == 'ParseXml' and case['args'][0] == 'defuse_xml':
                from elementpath.etree import defuse_xml
                defuse_xml(case['vars']['x'])
                out = ('value', 'passed')
            else:
                out = ('value', elementpath.Selector(case['expr'], parser={'3.0': XPath30Parser, '3.1': XPath31Parser}[case['parser']])
                       .select(rt, variables=dict(case['vars']), **case['kw']))
        except Exception as e:
            out = ('raised', type(e).__name__, str(e)[:100])
        print('expr     :', case['expr'], {k: str(v)[:80] for k, v in case['vars'].items()}, 'env', case['env'])
        print('observed :', out)
        if out[0] == 'raised':
            out = out[:2] + ('',)
        obs = project_globals(case['action'], out if out[0] == 'value' else ('raised', out[1], ''))
        exp = tuple(rec['expected'])
        if exp and exp[0] == 'names':
            exp = ('names', frozenset(exp[1]))
        if case['action'] == 'AvailVars' and exp == ('empty',):
            exp = ('names', frozenset())
        print('projected:', obs)
        reproduces = exp[0] != 'any' and tuple(obs) != exp
        if dec_state() != dec0:
            print('decimal  :', dec0, '->', dec_state())
            reproduces = True
    elif kind == 'envgate':
        observed = replay_envgate(case)
        for step, o in zip(case['steps'], observed):
            print('step     :', step, '->', o)
        reproduces = bool(observed) and [str(x) for x in observed[-1]] != list(rec['expected'])
    elif kind == 'stress':
        log = []
        r = stress_trace(case['mode'], case['inst'], case['threads'], case['iters'], case['seed'], log=log, tr=1)
        print('observed :', r['obs'], r['diffs'])
        reproduces = bool(r['obs'])
    elif kind == 'threads':
        r = threads_exploration(case['threads'], case['rounds'])
        print('observed :', r['diffs'][:3], r['alive'], r['monitor'])
        reproduces = bool(r['diffs'] or r['alive'] or r['monitor'])
    else:
        print('observed : (no replay for this kind)', kind)
        reproduces = True
    if reproduces:
        print('VIOLATION property=C19 replay=(replayed)')
        return 1
    return 0
