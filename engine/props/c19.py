"""C19 -- evaluation preserves process-global state: locale, locks, environment, entities.

Specs: spec/CollationLock.tla (step machine of CollationManager.__enter__/__exit__ and of its call
sites, written to the PROPERTY with an as-implemented variant whose deviations are the named
actions LeakRaise / YieldHolding / LeaveHolding), spec/TraceCollation.tla (binding B),
spec/Globals.tla (os.environ, decimal context, allow_environment gate, entity-declaring DOCTYPE).

TLC decides the design (safety over all interleavings x fault sequences x installed-locale
configurations; liveness under weak fairness) and is the source of every expectation:

  binding A  every transition of the dumped CollationLock graphs (property AND pinned variant) is
             covered by a behaviour that is replayed on the real code: real threads run real
             Selector.select / iter_select calls, `locale._setlocale` is scripted (fault injection
             as the behaviour says), `elementpath.collations._locale_collate_lock` is an
             instrumented lock, and a gate releases one real thread per spec action so that the
             TLC schedule is reproduced at the model's granularity.  The code must refine the
             property variant; where it does not, the pinned variant names the deviation.
  binding B  ndjson logs of the process-global effects (acquire / query / set / release /
             self_wait / hung, per-thread sequenced) of collation-using expressions and of seeded
             multi-thread stress runs are validated by TLC against TraceCollation.
  API level  after EVERY evaluation LC_COLLATE, lock.locked(), the decimal context and os.environ
             are compared with their snapshots and a later collation-using evaluation must complete
             with the same answer; Globals transitions are replayed on parse-xml /
             parse-xml-fragment / environment-variable / available-environment-variables.
  exploration (not model checking): independent Selectors from 8 threads == sequential results.

Instrumentation is monkeypatching from this module, active only in the check process.
Implementation-defined and excluded: the collation ORDER, the error code of an unsupported
collation, flags of the decimal context, DOCTYPEs that declare no entity.
"""
from __future__ import annotations

import collections
import decimal
import json
import locale
import os
import queue
import random
import re
import signal
import sys
import threading
import time
from concurrent.futures import ThreadPoolExecutor

from .. import core, tla

LEVEL = 'model_checking'

CODEPOINT = 'http://www.w3.org/2005/xpath-functions/collation/codepoint'
HTML_CI = 'http://www.w3.org/2005/xpath-functions/collation/html-ascii-case-insensitive'
UCA = 'http://www.w3.org/2013/collation/UCA'

_REAL = getattr(locale, '_c19_real_setlocale', None) or locale._setlocale   # the C function
locale._c19_real_setlocale = _REAL

# ----------------------------------------------------------------------------------------------
# binding tables (dumb, 1:1)

# abstract locale -> the name the C library sees
LOCALE_NAME = {
    'sim': {'C': 'C', 'L1': 'de_DE.UTF-8', 'L2': 'it_IT.UTF-8', 'FB': 'en_US.UTF-8'},
    # the sandbox as it is: only C, C.utf8 and POSIX exist
    'real': {'C': 'C', 'L1': 'C.UTF-8', 'L2': 'de_DE.UTF-8', 'FB': 'en_US.UTF-8'},
}
ABSTRACT = {
    'sim': {'C': 'C', 'POSIX': 'C', 'de_DE.UTF-8': 'L1', 'it_IT.UTF-8': 'L2', 'en_US.UTF-8': 'FB'},
    'real': {'C': 'C', 'POSIX': 'C', 'C.utf8': 'L1', 'C.UTF-8': 'L1', 'de_DE.UTF-8': 'L2', 'en_US.UTF-8': 'FB'},
}
LANG = {'sim': {'L1': 'de_DE', 'L2': 'it_IT'}, 'real': {'L1': 'C', 'L2': 'de_DE'}}
PLAIN_NAME = {'sim': {'L1': 'de_DE.UTF-8', 'L2': 'it_IT.UTF-8'}, 'real': {'L1': 'C.utf8', 'L2': 'de_DE.UTF-8'}}
# CollTable of spec/CollationLock.tla (loc, fb): used only to render expected hook values
LOC = {'cp': None, 'L1': 'L1', 'L2': 'L2', 'U1': 'L1', 'U2': 'L2', 'UFB': 'FB'}
DEVIATIONS = ('LeakRaise', 'YieldHolding', 'LeaveHolding')
SILENT = ('CallArg', 'EvalArgs', 'LeaveHolding', 'ResumeLazy', 'Enter0')


def coll_uris(c: str, mode: str) -> list[str]:
    """Concrete collation URIs of one abstract collation class."""
    if c == 'cp':
        return [CODEPOINT, HTML_CI]
    if c in ('L1', 'L2'):
        return [PLAIN_NAME[mode][c], f'{UCA}?lang={LANG[mode][c]};fallback=no']
    if c in ('U1', 'U2'):
        return [f'{UCA}?lang={LANG[mode]["L" + c[1]]}', f'{UCA}?lang={LANG[mode]["L" + c[1]]};fallback=yes']
    if c == 'UFB':
        return [UCA, UCA + '?fallback=yes']
    raise ValueError(c)


def coll_class(uri: str | None, mode: str) -> str | None:
    if uri is None:
        return None
    for c in LOC:
        if uri in coll_uris(c, mode):
            return c
    return None


PLAIN_SITES = [
    "compare('a','b',{C})", "contains('abc','b',{C})", "starts-with('abc','a',{C})",
    "ends-with('abc','c',{C})", "substring-before('abc','b',{C})", "substring-after('abc','b',{C})",
    "max(('a','b'),{C})", "min(('b','a'),{C})", "deep-equal(('a','b'),('a','b'),{C})",
    "contains-token('a b','a',{C})", "collation-key('a',{C})", "sort(('b','a'),{C})",
]
STRING_SITES = ["substring-before('abc','b',{C})", "substring-after('cba','b',{C})",
                "max(('a','A'),{C})", "min(('a','b'),{C})"]
ERROR_SITES = ["contains-token((1),'a',{C})", "deep-equal((abs#1),(1),{C})", "max(('a',1),{C})"]
GEN_SITES = ['distinct-values', 'index-of']
LAZY_SITES = ["deep-equal({E}, 0, {C})", "contains-token({S}, 'a', {C})"]


def q(s: str) -> str:
    return "'" + s.replace("'", "''") + "'"


# ----------------------------------------------------------------------------------------------
# instrumentation

class SelfDeadlock(BaseException):
    """The thread asked for the lock it already holds (it would block for ever)."""


class LockTimeout(BaseException):
    """acquire() did not succeed within the hang detector's timeout."""


class ReplayAbort(BaseException):
    """The scheduler tears the replay down."""


ABORT = '__abort__'


class Gate:
    def __init__(self, tids):
        self.posts = {t: queue.Queue() for t in tids}
        self.grants = {t: queue.Queue() for t in tids}
        self.acks: queue.Queue = queue.Queue()
        self.free = False


class InstrLock:
    """Stands in for elementpath.collations._locale_collate_lock (a threading.Lock)."""

    def __init__(self, world):
        self._l = threading.Lock()
        self.world = world
        self.owner = 0

    def acquire(self, blocking=True, timeout=-1):
        return self.world.on_acquire(blocking, timeout)

    def release(self):
        self.world.on_release()

    def locked(self):
        return self._l.locked()

    def __enter__(self):
        return self.acquire()

    def __exit__(self, *a):
        self.release()


def _peek_collation():
    """The collation of the CollationManager that is calling the lock (diagnostic identity)."""
    try:
        f = sys._getframe(3)
    except ValueError:
        return None
    for _ in range(8):
        if f is None:
            break
        s = f.f_locals.get('self')
        if s is not None and hasattr(s, 'lc_collate') and hasattr(s, 'collation'):
            return s.collation
        f = f.f_back
    return None


class World:
    """The process globals as seen by the code under test: LC_COLLATE and the collation lock."""

    def __init__(self, mode='sim', installed=(), init='C', gate=None, log=None, tr=0, acquire_timeout=3.0):
        self.mode = mode
        self.installed = set(installed)        # names the C library accepts (besides C / POSIX)
        self.cell = init
        self.abs_of = ABSTRACT[mode]
        self.gate = gate
        self.log = log
        self.tr = tr
        self.mutex = threading.Lock()
        self.tids: dict[int, int] = {}
        self.seq: collections.Counter = collections.Counter()
        self.aborted: set[int] = set()
        self.script: collections.deque = collections.deque()   # ungated fault injection for `set`
        self.acquire_timeout = acquire_timeout
        self.lock = InstrLock(self)
        self.real_mismatch = None
        if mode == 'real':
            _REAL(locale.LC_COLLATE, init)

    # -- bookkeeping
    def register(self, tid):
        self.tids[threading.get_ident()] = tid

    def tid(self):
        return self.tids.get(threading.get_ident(), 0)

    def abstract(self, name):
        return self.abs_of.get(name, name)

    def current(self):
        return self.cell if self.mode == 'sim' else _REAL(locale.LC_COLLATE, None)

    def emit(self, tid, e, v='', r=''):
        if self.log is None:
            return
        with self.mutex:
            self.seq[tid] += 1
            self.log.append({'tr': self.tr, 't': tid, 's': self.seq[tid], 'e': e, 'v': v, 'r': r,
                             'inst': [], 'lc0': ''})

    def _gated(self, tid):
        g = self.gate
        return g is not None and not g.free and tid in g.posts and tid not in self.aborted

    def _post(self, tid, p):
        self.gate.posts[tid].put(p)

    def _grant(self, tid):
        g = self.gate.grants[tid].get()
        if g == ABORT:
            self.aborted.add(tid)
            raise ReplayAbort()
        return g

    # -- locale._setlocale
    def c_setlocale(self, category, value=None):
        if category != locale.LC_COLLATE:
            return _REAL(category, value)
        tid = self.tid()
        gated = self._gated(tid)
        if value is None:
            if gated:
                self._post(tid, ('query', None))
                self._grant(tid)
            cur = self.current()
            if tid not in self.aborted:
                self.emit(tid, 'query', self.abstract(cur))
            if gated:
                self.gate.acks.put((tid, None))
            return cur
        grant = None
        if gated:
            self._post(tid, ('set', self.abstract(value)))
            grant = self._grant(tid)
        elif self.script and tid not in self.aborted:
            grant = self.script.popleft()
        err = None
        try:
            if grant == 'fail':
                raise locale.Error('unsupported locale setting')
            if self.mode == 'sim':
                if value in ('', 'C', 'POSIX'):
                    self.cell = 'C'
                elif value in self.installed:
                    self.cell = value
                else:
                    raise locale.Error('unsupported locale setting')
                res = self.cell
            else:
                res = _REAL(category, value)
        except locale.Error:
            if grant == 'ok':
                err = self.real_mismatch = f'setlocale({value!r}) failed but the behaviour says ok'
            if tid not in self.aborted:
                self.emit(tid, 'set', self.abstract(value), 'fail')
            if gated:
                self.gate.acks.put((tid, err))
            raise
        if tid not in self.aborted:
            self.emit(tid, 'set', self.abstract(value), 'ok')
        if gated:
            self.gate.acks.put((tid, None))
        return res

    # -- _locale_collate_lock
    def on_acquire(self, blocking=True, timeout=-1):
        tid = self.tid()
        lk = self.lock
        if tid in self.aborted:
            if lk._l.acquire(False):
                lk.owner = tid
            return True
        if self._gated(tid):
            cls = coll_class(_peek_collation(), self.mode)
            self._post(tid, ('acquire', cls, lk.owner == tid and lk._l.locked()))
            self._grant(tid)
            if not lk._l.acquire(False):
                self.gate.acks.put((tid, 'lock_busy'))
                self._grant(tid)      # only an abort can follow
            lk.owner = tid
            self.emit(tid, 'acquire')
            self.gate.acks.put((tid, None))
            return True
        if lk.owner == tid and lk._l.locked():
            self.emit(tid, 'self_wait')
            self.aborted.add(tid)
            raise SelfDeadlock()
        if not blocking:
            ok = lk._l.acquire(False)
        else:
            ok = lk._l.acquire(True, self.acquire_timeout if timeout is None or timeout < 0 else
                               min(timeout, self.acquire_timeout))
        if not ok:
            if blocking and (timeout is None or timeout < 0):
                self.emit(tid, 'hung')
                self.aborted.add(tid)
                raise LockTimeout()
            return False
        lk.owner = tid
        self.emit(tid, 'acquire')
        return True

    def on_release(self):
        tid = self.tid()
        lk = self.lock
        if tid in self.aborted:
            if lk.owner == tid and lk._l.locked():
                lk.owner = 0
                lk._l.release()
            return
        gated = self._gated(tid)
        if gated:
            self._post(tid, ('release', None))
            self._grant(tid)
        self.emit(tid, 'release')          # logged while the lock is still held
        lk.owner = 0
        try:
            lk._l.release()
        except RuntimeError:
            if gated:
                self.gate.acks.put((tid, 'release_unlocked'))
            raise
        if gated:
            self.gate.acks.put((tid, None))


_installed_world: World | None = None


def install(world: World) -> None:
    global _installed_world
    import elementpath.collations as C
    locale._setlocale = world.c_setlocale
    C._locale_collate_lock = world.lock
    _installed_world = world


def uninstall() -> None:
    global _installed_world
    import elementpath.collations as C
    locale._setlocale = _REAL
    C._locale_collate_lock = threading.Lock()
    _REAL(locale.LC_COLLATE, 'C')
    _installed_world = None


_ROOT = None
_SEL: dict = {}


def root():
    global _ROOT
    if _ROOT is None:
        import xml.etree.ElementTree as ET
        _ROOT = ET.XML('<r><a>x</a><a>y</a><b/></r>')
    return _ROOT


def selector(expr: str):
    """Compiled once per process, OUTSIDE any gated section (XPath2Parser.__init__ reads LC_COLLATE)."""
    s = _SEL.get(expr)
    if s is None:
        from elementpath import Selector
        from elementpath.xpath31 import XPath31Parser
        w = _installed_world
        saved = None
        if w is not None and w.mode == 'sim':      # parsers are built in a C-locale process
            saved, w.cell = w.cell, 'C'
        try:
            s = Selector(expr, parser=XPath31Parser)
        finally:
            if saved is not None:
                w.cell = saved
        if len(_SEL) > 5000:
            _SEL.clear()
        _SEL[expr] = s
    return s


def self_test() -> None:
    """The monkeypatches must be effective, else nothing below means anything."""
    log: list = []
    w = World('sim', installed={'de_DE.UTF-8'}, log=log)
    w.register(1)
    install(w)
    try:
        if locale.setlocale(locale.LC_COLLATE, 'de_DE.UTF-8') != 'de_DE.UTF-8' or \
                locale.getlocale(locale.LC_COLLATE) != ('de_DE', 'UTF-8') or _REAL(locale.LC_COLLATE, None) != 'C':
            raise tla.MachineryError('scripted locale._setlocale is not effective')
        locale.setlocale(locale.LC_COLLATE, 'C')
        sel = selector("compare('a','b','de_DE.UTF-8')")     # parsing evaluates constant calls once
        del log[:]
        r = sel.select(root())
        evs = [(e['e'], e['v'], e['r']) for e in log]
        want = [('acquire', '', ''), ('query', 'C', ''), ('set', 'L1', 'ok'), ('set', 'C', 'ok'), ('release', '', '')]
        if r != -1 or evs != want:
            raise tla.MachineryError(f'instrumentation_missing: compare() under the instrumented lock gave {r!r} {evs}')
    finally:
        uninstall()


# ----------------------------------------------------------------------------------------------
# binding A: TLC behaviours -> real threads under a gate

def run_idx(frs) -> int:
    """Index of the frame that executes (the last one that is not suspended), -1 if none."""
    for i in range(len(frs) - 1, -1, -1):
        if frs[i]['pc'] != 'susp':
            return i
    return -1


def is_child(frs, idx) -> bool:
    return idx > 0 and frs[idx - 1]['k'] == 'lazy' and frs[idx - 1]['kid'] == 'run'


def acting_frame(S, act, args):
    """(index, frame record) of the frame an action of thread args[0] works on in state S."""
    frs = S['frames'][args[0] - 1]
    if act in ('Call',):
        return None, None
    if act == 'CallArg':
        return len(frs) - 1, frs[-1]
    if act in ('Resume', 'Abandon'):
        return args[1] - 1, frs[args[1] - 1]
    r = run_idx(frs)
    if r < 0:
        r = len(frs) - 1          # ResumeLazy / Unwind of a suspended lazy frame
    return r, frs[r]


def expected_posts(S, act, args) -> list[tuple]:
    """What the real thread must do (hook calls, driver-visible outcomes) during one spec action."""
    idx, f = acting_frame(S, act, args)
    if act in ('Call', 'Resume') or act in SILENT:
        return []
    frs = S['frames'][args[0] - 1]
    child = is_child(frs, idx)
    leave = [('set', f['saved'], 'ok'), ('release',)] if f['hold'] else []
    if act == 'Acquire':
        return [('acquire', f['c'])]
    if act == 'ReadCurrent':
        return [('query',)]
    if act == 'SetLocale':
        return [('set', LOC[f['c']], args[1])]
    if act == 'Fallback':
        return [('set', 'FB', args[1])]
    if act == 'RaiseFromEnter':
        return [('release',)] + ([] if child else [('drv', 'raised')])
    if act == 'LeakRaise':
        return [] if child else [('drv', 'raised')]
    if act == 'Exit':
        return leave + ([] if child else [('drv', 'returned')])
    if act == 'ExitGen':
        return leave
    if act == 'Unwind':
        return leave + ([] if child else [('drv', 'raised')])
    if act in ('YieldHolding', 'Yield'):
        return [('drv', 'yielded')]
    if act == 'Return':
        return [('drv', 'returned')]
    if act == 'Abandon':
        return leave + [('drv', 'closed')]
    raise tla.MachineryError(f'no binding for action {act}')


def post_matches(exp: tuple, got: tuple) -> bool:
    if exp[0] != got[0]:
        return False
    if exp[0] == 'acquire':
        return got[1] is None or got[1] == exp[1]
    if exp[0] == 'set':
        return got[1] == exp[1]
    if exp[0] == 'drv':
        return got[1] == exp[1]
    return True


def render_frames(finfo: dict, mode: str, variety: int) -> None:
    """Choose the concrete XPath expression of every top-level frame (dumb rendering of the
    abstract frame: call-site class, collation class, number of items, how it ends)."""
    def uri(c, salt):
        us = coll_uris(c, mode)
        return q(us[(variety + salt) % len(us)])

    def plain(fi, fid, sites=None):
        if 'Unwind' in fi['acts']:
            tpl = ERROR_SITES[(variety + fid) % len(ERROR_SITES)]
        else:
            sites = sites or PLAIN_SITES
            tpl = sites[(variety + fid) % len(sites)]
        return tpl.replace('{C}', uri(fi['c'], fid))

    for fid, fi in finfo.items():
        if fi['child']:
            continue
        C = uri(fi['c'], fid)
        if fi['k'] == 'plain':
            fi['expr'] = plain(fi, fid)
        elif fi['k'] == 'gen':
            n = fi['yields']
            ended = [a for a in fi['acts'] if a in ('Exit', 'Return', 'Unwind', 'Abandon')]
            site = GEN_SITES[(variety + fid) % 2]
            more = 0 if ended and ended[-1] in ('Exit', 'Return') else 1
            if site == 'distinct-values':
                items = [q(f'a{j}') for j in range(n + more)]
            else:
                items = [q('a')] * (n + more)
            if ended and ended[-1] == 'Unwind':
                items = items[:n] + ['error()']
            seq = '(' + ', '.join(items) + ')'
            fi['expr'] = f'distinct-values({seq}, {C})' if site == 'distinct-values' else f"index-of({seq}, 'a', {C})"
            fi['items'] = n + more
        else:  # lazy
            kid = finfo.get(fi.get('kid'))
            tpl = LAZY_SITES[(variety + fid) % len(LAZY_SITES)]
            if kid is None:
                kid = {'c': 'cp', 'acts': [], 'child': True}
                kfid = fid + 1
            else:
                kfid = fi['kid']
            if '{S}' in tpl and 'Unwind' not in kid['acts']:
                fi['expr'] = tpl.replace('{S}', plain(kid, kfid, STRING_SITES)).replace('{C}', C)
            else:
                fi['expr'] = LAZY_SITES[0].replace('{E}', plain(kid, kfid)).replace('{C}', C)


def build_plan(states, path, mode: str, variety: int) -> dict:
    """One TLC behaviour -> per-step expectations + the API calls of every thread."""
    S0 = states[path[0][0]]
    n = len(S0['frames'])
    mir: dict[int, list[int]] = {t: [] for t in range(1, n + 1)}
    finfo: dict[int, dict] = {}
    steps = []
    nfid = 0
    for (src, dst, act, args) in path:
        S, D = states[src], states[dst]
        t = args[0]
        frs = S['frames'][t - 1]
        step = {'t': t, 'act': act, 'args': list(args), 'posts': [list(p) for p in expected_posts(S, act, args)],
                'cmd': None, 'owner': D['owner'], 'lc': D['lc']}
        if act == 'Call':
            nfid += 1
            mir[t].append(nfid)
            finfo[nfid] = {'t': t, 'c': args[1], 'k': args[2], 'child': False, 'acts': [], 'yields': 0}
            step['cmd'] = ['call', nfid]
        elif act == 'CallArg':
            nfid += 1
            finfo[mir[t][-1]]['kid'] = nfid
            mir[t].append(nfid)
            finfo[nfid] = {'t': t, 'c': args[1], 'k': 'plain', 'child': True, 'acts': [], 'yields': 0}
        else:
            idx, f = acting_frame(S, act, args)
            fid = mir[t][idx]
            finfo[fid]['acts'].append(act)
            if act in ('Yield', 'YieldHolding'):
                finfo[fid]['yields'] += 1
            if act == 'Resume':
                step['cmd'] = ['next', fid]
            elif act == 'Abandon':
                step['cmd'] = ['close', fid]
            if len(D['frames'][t - 1]) < len(frs):
                mir[t].pop(idx)
        steps.append(step)
    render_frames(finfo, mode, variety)
    for st in steps:
        if st['cmd'] and st['cmd'][0] == 'call':
            fi = finfo[st['cmd'][1]]
            st['cmd'] += [fi['k'], fi['expr']]
    # what the threads are doing when the behaviour ends
    Dn = states[path[-1][1]]
    waits = {}
    for t in range(1, n + 1):
        frs = Dn['frames'][t - 1]
        r = run_idx(frs)
        if r >= 0 and frs[r]['pc'] == 'start' and LOC[frs[r]['c']] is not None:
            waits[t] = 'self' if Dn['owner'] == t else 'other'
    inst = sorted(S0['inst'])
    return {'mode': mode, 'threads': n, 'inst': inst, 'lc0': S0['lc0'], 'steps': steps, 'final_waits': waits,
            'exprs': {fid: fi.get('expr') for fid, fi in finfo.items() if not fi['child']}}


def _driver(world: World, tid: int, cmdq: queue.Queue) -> None:
    world.register(tid)
    gate = world.gate
    post = gate.posts[tid].put
    iters: dict[int, object] = {}

    def step(it):
        try:
            next(it)
        except StopIteration:
            post(('drv', 'returned'))
        else:
            post(('drv', 'yielded'))

    post(('drv', 'ready'))
    try:
        while True:
            cmd = cmdq.get()
            if cmd[0] == 'quit':
                break
            try:
                if cmd[0] == 'call':
                    _, fid, kind, expr = cmd
                    sel = selector(expr)
                    if kind == 'gen':
                        it = iters[fid] = sel.iter_select(root())
                        step(it)
                    else:
                        sel.select(root())
                        post(('drv', 'returned'))
                elif cmd[0] == 'next':
                    step(iters[cmd[1]])
                elif cmd[0] == 'close':
                    iters.pop(cmd[1]).close()
                    post(('drv', 'closed'))
            except ReplayAbort:
                break
            except BaseException as e:    # an outcome, not a crash
                post(('drv', 'raised', type(e).__name__, getattr(e, 'code', None)))
    finally:
        world.aborted.add(tid)
        for it in list(iters.values()):
            try:
                it.close()
            except BaseException:
                pass
        iters.clear()


def execute_plan(plan: dict, timeout: float = 3.0) -> dict:
    """Run one behaviour on the real code.  Returns {'kind': 'conform', ...} or the first divergence."""
    mode = plan['mode']
    names = LOCALE_NAME[mode]
    tids = list(range(1, plan['threads'] + 1))
    gate = Gate(tids)
    installed = {names[a] for a in plan['inst']} | ({'C.utf8'} if mode == 'real' and 'L1' in plan['inst'] else set())
    world = World(mode, installed=installed, init=names[plan['lc0']], gate=gate, log=[])
    for st in plan['steps']:            # compile outside the gated section
        if st['cmd'] and st['cmd'][0] == 'call':
            install(world)
            gate.free = True
            try:
                selector(st['cmd'][3])
            finally:
                gate.free = False
    install(world)
    cmdq = {t: queue.Queue() for t in tids}
    threads = [threading.Thread(target=_driver, args=(world, t, cmdq[t]), daemon=True) for t in tids]
    for th in threads:
        th.start()
    result: dict = {'kind': 'conform'}
    matched_steps = 0
    try:
        for t in tids:
            gate.posts[t].get(timeout=timeout)          # ready
        for si, st in enumerate(plan['steps']):
            t = st['t']
            if st['cmd']:
                cmdq[t].put(tuple(st['cmd']))
            done_posts = []
            for exp in st['posts']:
                exp = tuple(exp)
                try:
                    got = gate.posts[t].get(timeout=timeout)
                except queue.Empty:
                    got = ('hung',)
                if not post_matches(exp, got):
                    result = {'kind': 'diverge', 'step': si, 't': t, 'expected': list(exp), 'observed': list(got),
                              'matched': done_posts, 'what': 'event'}
                    break
                if exp[0] != 'drv':
                    gate.grants[t].put(exp[2] if exp[0] == 'set' else 'go')
                    try:
                        _, err = gate.acks.get(timeout=timeout)
                    except queue.Empty:
                        err = 'no_ack'
                    if err:
                        result = {'kind': 'diverge', 'step': si, 't': t, 'expected': list(exp), 'observed': [err],
                                  'matched': done_posts, 'what': 'effect'}
                        break
                done_posts.append(list(exp))
            if result['kind'] != 'conform':
                break
            obs_owner = world.lock.owner if world.lock.locked() else 0
            obs_lc = world.abstract(world.current())
            if (obs_owner, obs_lc) != (st['owner'], st['lc']):
                result = {'kind': 'diverge', 'step': si, 't': t, 'expected': ['state', st['owner'], st['lc']],
                          'observed': ['state', obs_owner, obs_lc], 'matched': done_posts, 'what': 'state'}
                break
            matched_steps += 1
        if result['kind'] == 'conform':
            waits = {}
            for t in tids:
                want = plan['final_waits'].get(t) or plan['final_waits'].get(str(t))
                if want:
                    try:
                        got = gate.posts[t].get(timeout=timeout)
                    except queue.Empty:
                        got = ('hung',)
                    if got[0] != 'acquire':
                        result = {'kind': 'diverge', 'step': len(plan['steps']), 't': t,
                                  'expected': ['acquire(pending)', want], 'observed': list(got), 'matched': [],
                                  'what': 'final'}
                        break
                    waits[t] = 'self' if got[2] else 'other'
                    if waits[t] != want:
                        result = {'kind': 'diverge', 'step': len(plan['steps']), 't': t,
                                  'expected': ['waits_on', want], 'observed': ['waits_on', waits[t]], 'matched': [],
                                  'what': 'final'}
                        break
                else:
                    try:
                        got = gate.posts[t].get_nowait()
                        result = {'kind': 'diverge', 'step': len(plan['steps']), 't': t, 'expected': ['idle'],
                                  'observed': list(got), 'matched': [], 'what': 'final'}
                        break
                    except queue.Empty:
                        pass
            if result['kind'] == 'conform':
                result['waits'] = waits
                result['locked_at_end'] = world.lock.locked()
    finally:
        # tear down: everything that is gated is aborted, drivers quit
        for t in tids:
            gate.grants[t].put(ABORT)
            cmdq[t].put(('quit',))
        for th in threads:
            th.join(timeout=timeout)
        gate.free = True
        result['threads_left'] = sum(1 for th in threads if th.is_alive())
        uninstall()
    result['matched_steps'] = matched_steps
    result['events'] = len(world.log)
    if world.real_mismatch and result['kind'] == 'conform':
        result = {'kind': 'machinery', 'what': world.real_mismatch}
    return result


# -- path cover -----------------------------------------------------------------------------------

class G:
    """A loaded TLC graph with the indexes the binding needs."""

    def __init__(self, graph: tla.Graph, variant: str):
        self.variant = variant
        self.states = graph.states
        self.init = graph.init
        self.edges = graph.edges
        self.out: dict[int, list[int]] = {s: [] for s in graph.states}
        for ei, (s, d, a, args) in enumerate(graph.edges):
            self.out[s].append(ei)
        self.index = {st: sid for sid, st in graph.states.items()}


def cover_paths(g: G, keep, rnd: random.Random, limit: int | None = None) -> tuple[list[list[int]], int]:
    """Behaviours (lists of edge indexes, init -> terminal) that together contain every kept edge."""
    out = {s: [ei for ei in eis if keep(g.edges[ei])] for s, eis in g.out.items()}
    # BFS tree from the initial states
    pred: dict[int, int | None] = {s: None for s in g.init}
    order = list(g.init)
    dq = collections.deque(g.init)
    while dq:
        s = dq.popleft()
        for ei in out[s]:
            d = g.edges[ei][1]
            if d not in pred:
                pred[d] = ei
                order.append(d)
                dq.append(d)
    # shortest way to a terminal state (reverse BFS); the graphs are acyclic: every action makes progress
    rev: dict[int, list[int]] = {s: [] for s in order}
    for s in order:
        for ei in out[s]:
            rev[g.edges[ei][1]].append(ei)
    nxt: dict[int, int] = {}
    done = {s for s in order if not out[s]}
    dq = collections.deque(done)
    while dq:
        d = dq.popleft()
        for ei in rev[d]:
            s = g.edges[ei][0]
            if s not in done:
                done.add(s)
                nxt[s] = ei
                dq.append(s)
    if len(done) != len(order):
        raise tla.MachineryError('CollationLock graph: a state cannot reach a terminal state')
    uncovered = {ei for s in order for ei in out[s]}
    total = len(uncovered)
    paths = []
    for s in order:
        for e0 in out[s]:
            if e0 not in uncovered:
                continue
            pre = []
            x = s
            while pred[x] is not None:
                pre.append(pred[x])
                x = g.edges[pred[x]][0]
            pre.reverse()
            path = pre + [e0]
            uncovered.discard(e0)
            x = g.edges[e0][1]
            while out[x]:
                fresh = [ei for ei in out[x] if ei in uncovered]
                ei = rnd.choice(fresh) if fresh else nxt[x]
                path.append(ei)
                uncovered.discard(ei)
                x = g.edges[ei][1]
            for ei in pre:
                uncovered.discard(ei)
            paths.append(path)
            if limit and len(paths) >= limit:
                return paths, total - len(uncovered)
    return paths, total - len(uncovered)


# -- replay workers ---------------------------------------------------------------------------------

_GRAPHS: dict[str, G] = {}


def classify(g: G, other: G | None, path_edges, res: dict) -> str:
    """Name the action of the OTHER variant that explains a divergence, else 'unmodelled'."""
    if other is None or res['what'] not in ('event',):
        return 'unmodelled'
    si = res['step']
    src = g.edges[path_edges[si]][0]
    sid = other.index.get(g.states[src])
    if sid is None:
        return 'unmodelled'
    t = res['t']
    matched = [tuple(p) for p in res['matched']]
    observed = tuple(res['observed'])
    seen = {sid}
    dq = collections.deque([sid])
    while dq:
        s = dq.popleft()
        for ei in other.out[s]:
            _, d, act, args = other.edges[ei]
            if args[0] != t:
                continue
            posts = expected_posts(other.states[s], act, args)
            if not posts and (act in SILENT):
                if d not in seen:
                    seen.add(d)
                    dq.append(d)
                continue
            k = len(matched)
            if len(posts) > k and all(post_matches(p, m) for p, m in zip(posts[:k], matched)) \
                    and post_matches(posts[k], observed):
                return act
    return 'unmodelled'


def replay_job(job):
    """(variant, mode, variety, [edge indexes]) -> verdict record."""
    variant, mode, variety, pe = job
    g = _GRAPHS[variant]
    other = _GRAPHS.get('pinned' if variant == 'property' else 'property')
    path = [g.edges[ei] for ei in pe]
    plan = build_plan(g.states, path, mode, variety)
    res = execute_plan(plan)
    acts = [g.edges[ei][2] for ei in pe]
    devs = [a for a in acts if a in DEVIATIONS]
    Dn = g.states[path[-1][1]]
    rec = {'variant': variant, 'mode': mode, 'len': len(pe), 'matched': res.get('matched_steps', 0),
           'result': res['kind'], 'devs': devs, 'verdict': 'pass', 'events': res.get('events', 0),
           'threads_left': res.get('threads_left', 0)}
    if res['kind'] == 'machinery':
        rec['verdict'] = 'machinery'
        rec['what'] = res['what']
        return rec
    leak = Dn['owner'] != 0 and not any(f['hold'] for f in Dn['frames'][Dn['owner'] - 1])
    selfw = any(v == 'self' for v in plan['final_waits'].values())
    blocked = any(v == 'other' for v in plan['final_waits'].values())
    if res['kind'] == 'conform':
        if variant == 'pinned' and devs:
            rec['verdict'] = 'fail'
            cons = '+'.join(x for x, on in (('lock_leak', leak), ('self_wait', selfw), ('blocked', blocked)) if on) or 'none'
            rec['features'] = {'part': 'replay', 'deviation': devs[0], 'consequence': cons, 'threads': plan['threads']}
            rec['expected'] = 'the property variant of CollationLock (no %s)' % devs[0]
            rec['observed'] = {'behaviour_reproduced': acts, 'waits': res.get('waits'), 'locked_at_end': res.get('locked_at_end')}
    else:
        cls = classify(g, other, pe, res)
        st = plan['steps'][res['step']] if res['step'] < len(plan['steps']) else {'act': 'end', 'args': []}
        if variant == 'pinned' and cls != 'unmodelled':
            rec['verdict'] = 'pass'
            rec['note'] = 'pinned_model_outdated'       # the code does what the property variant does here
        elif variant == 'property' and cls in DEVIATIONS:
            rec['verdict'] = 'fail'
            rec['features'] = {'part': 'replay', 'deviation': cls, 'consequence': 'diverges', 'threads': plan['threads']}
            rec['expected'] = {'action': st['act'], 'event': res['expected']}
            rec['observed'] = {'event': res['observed'], 'explained_by_pinned_action': cls}
        else:
            rec['verdict'] = 'fail'
            rec['features'] = {'part': 'replay', 'deviation': 'unmodelled', 'action': st['act'],
                               'expected_event': str(res['expected'][0]), 'observed_event': str(res['observed'][0]),
                               'what': res['what'], 'variant': variant}
            rec['expected'] = {'action': st['act'], 'event': res['expected']}
            rec['observed'] = {'event': res['observed'], 'after': res['matched']}
    if rec['verdict'] == 'fail':
        rec['case'] = {'kind': 'plan', 'plan': plan, 'actions': [f'{a}{tuple(x)}' for (_, _, a, x) in path]}
    if variety % 97 == 0 or rec['verdict'] == 'fail':
        rec['sample'] = {'variant': variant, 'mode': mode, 'inst': plan['inst'], 'lc0': plan['lc0'],
                         'actions': [f'{a}{tuple(x)}' for (_, _, a, x) in path], 'exprs': plan['exprs'],
                         'result': res['kind']}
    return rec


def replay_chunk(jobs):
    return [replay_job(j) for j in jobs]
