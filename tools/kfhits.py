#!/venv/bin/python
"""tools/kfhits.py PROP  -- after a run of ./check PROP: list known-finding entries with their hit counts (from the evidence)."""
import json, os, sys
prop = sys.argv[1]
ev = json.load(open(f'/verif/evidence/{prop}.json'))
hits = ev['coverage'].get('known_finding_hits', {})
p = f'/verif/known_findings.d/{prop}.json'
if os.path.exists(p):
    kf = json.load(open(p))['findings']
else:    # merged file
    kf = [k for k in json.load(open('/verif/known_findings.json'))['findings'] if k['property'] == prop]
for i, k in enumerate(kf):
    print(i, k.get('status', 'known'), k.get('commit', '-'), hits.get(k['what'], 0), '|', k['what'][:110])
print('violations', ev.get('violations'), 'wall', ev.get('wall_s'))
