#!/venv/bin/python
"""tools/seed_store_round.py PRE PROP... -- store every seed of round PRE (/tmp/PRE-PROP-out) whose chain log
.scratch/<logprefix>_PROP.log says RESULT CAUGHT and which is not stored yet (same patch text); detection text = verdict +
first violation class of the log.  Extra text for seeds first missed: --missed 'PROP:i=text' (several allowed)."""
import glob, os, re, subprocess, sys
pre = sys.argv[1]
args = sys.argv[2:]
missed = {}
props = []
i = 0
while i < len(args):
    if args[i] == '--missed':
        k, v = args[i + 1].split('=', 1); missed[k] = v; i += 2
    elif args[i] == '--log':
        logpre = args[i + 1]; i += 2
    else:
        props.append(args[i]); i += 1
logpre = locals().get('logpre', 's6')
for p in props:
    log = open(f'/verif/.scratch/{logpre}_{p}.log').read()
    stored = {open(f).read() for f in glob.glob(f'/verif/seeded/{p}-*/patch.diff')}
    nxt = max([int(d.rsplit('-', 1)[1]) for d in glob.glob(f'/verif/seeded/{p}-*')] + [0]) + 1
    for m in re.finditer(r'== %s %s patch(\d)\n(.*?)(?=\n== |\Z)' % (p, pre), log, re.S):
        idx, body = int(m.group(1)), m.group(2)
        if 'RESULT CAUGHT' not in body:
            continue
        patch = open(f'/tmp/{pre}-{p}-out/patch{idx}.diff').read()
        if patch in stored:
            continue
        cls = re.search(r'^  class=(.*)$', body, re.M)
        key = f'{p}:{idx}'
        text = (f'first MISSED; CAUGHT after {missed[key]}' if key in missed else 'CAUGHT at once (round 6)') + \
            (f'; first violation class: {cls.group(1)[:420]}' if cls else '')
        subprocess.run(['/verif/tools/seed_store.py', p, str(idx), text, '--from', pre, '--as', str(nxt)], check=True)
        nxt += 1
