#!/bin/bash
# Development aid: which lines of /repo/elementpath does a check execute?  usage: tools/covaudit.sh C06 [tier]
# Writes .scratch/cov/<PROP>.json (coverage.py json report restricted to elementpath) and prints a per-file summary.
set -u
P=$1; T=${2:-quick}
cd /verif
D=/verif/.scratch/cov/$P; rm -rf $D; mkdir -p $D
cat > $D/rc <<RC
[run]
branch = False
parallel = True
concurrency = multiprocessing,thread
sigterm = True
data_file = $D/data
source = ${VERIF_REPO:-/repo}/elementpath
RC
COVERAGE_RCFILE=$D/rc /venv/bin/python -m coverage run ./check $P --tier $T > $D/log 2>&1
echo "check rc=$?"; tail -1 $D/log
COVERAGE_RCFILE=$D/rc /venv/bin/python -m coverage combine -q $D >/dev/null 2>&1
COVERAGE_RCFILE=$D/rc /venv/bin/python -m coverage json -q -o /verif/.scratch/cov/$P.json
COVERAGE_RCFILE=$D/rc /venv/bin/python -m coverage report | tail -80
rm -rf $D/data*
