#!/venv/bin/python
"""tools/applyfix_auto.py <diff>...  -- apply proposed fixes to /repo, one `fix:` commit each; the commit message is the
header of the diff file (first line without the 'Cnn:' prefix = subject)."""
import re, subprocess, sys
for f in sys.argv[1:]:
    text = open(f).read()
    i = text.index('diff --git')
    header = [l.lstrip('# ').rstrip() for l in text[:i].strip().splitlines()]
    subj = re.sub(r'^C\d+( ?/ ?C\d+)?:\s*', '', header[0]).strip().rstrip('.')
    subj = subj[0].lower() + subj[1:] if subj and not subj.startswith(('fn:', 'XPath', 'XSD', 'NaN')) else subj
    body = '\n'.join(l for l in header[1:] if not re.match(r'^(Verified|Repository|Repair|tests/|With the patch|The tests of)', l)).strip()
    msg = f'fix: {subj}\n\n{body}\n'
    open('/tmp/applyfix.diff', 'w').write(text[i:])
    r = subprocess.run('git apply --recount /tmp/applyfix.diff', shell=True, cwd='/repo', capture_output=True, text=True)
    if r.returncode:
        print('FAILED', f, r.stderr[:300]); continue
    subprocess.run(['git', 'commit', '-qam', msg], cwd='/repo', check=True)
    h = subprocess.run('git log --oneline -1', shell=True, cwd='/repo', capture_output=True, text=True).stdout[:7]
    print(f'{h} {f.split("/")[-1]}  |  fix: {subj[:90]}')
