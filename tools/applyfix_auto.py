#!/venv/bin/python
"""tools/applyfix_auto.py <diff>...  -- apply proposed fixes to /repo, one `fix:` commit each.  The commit message is taken
from the header of the diff file: first line = subject ("fix: ..."), following lines (optionally '#'-commented) = body, minus
the lines that talk about this verification machinery (they mean nothing to a reader of the repository history)."""
import re, subprocess, sys
DROP = re.compile(r'/verif|\./check|VERIF_REPO|[Vv]erified|Found by|found by the|Property C\d|property C\d|spec/|known finding|scratch worktree|'
                  r'repository suite|Repository suite|tools/|KNOWN-FINDING|quick tier|quick exits|C\d\d check|check C\d\d|tier quick|\(C\d\d')
for f in sys.argv[1:]:
    text = open(f).read()
    i = text.index('diff --git')
    header = [re.sub(r'^#\s?', '', l).rstrip() for l in text[:i].strip().splitlines()]
    subj = re.sub(r'^(fix:\s*)+', '', re.sub(r'^C\d+( ?/ ?C\d+)?:\s*', '', header[0])).strip().rstrip('.')
    paras, cur = [], []
    for l in header[1:] + ['']:
        if l.strip():
            cur.append(l)
        elif cur:
            paras.append(cur)
            cur = []
    kept = ['\n'.join(p) for p in paras if not any(DROP.search(l) for l in p)]
    msg = f'fix: {subj}\n\n' + '\n\n'.join(kept) + '\n'
    open('/tmp/applyfix.diff', 'w').write(text[i:])
    r = subprocess.run('git apply --recount -3 /tmp/applyfix.diff', shell=True, cwd='/repo', capture_output=True, text=True)
    if r.returncode:
        print('FAILED', f, r.stderr[:300]); continue
    subprocess.run(['git', 'commit', '-qam', msg], cwd='/repo', check=True)
    h = subprocess.run('git log --oneline -1', shell=True, cwd='/repo', capture_output=True, text=True).stdout[:7]
    print(f'{h} {f.split("/")[-1]}  |  fix: {subj[:100]}')
