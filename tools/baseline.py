#!/venv/bin/python
"""Run the repository test-suite (guard OFF) and compare with /root/.vp/BASELINE.json stable_pass."""
import json, os, subprocess, sys, tempfile, xml.etree.ElementTree as ET
b = json.load(open('/root/.vp/BASELINE.json'))
out = tempfile.mktemp(suffix='.junit.xml', dir='/verif/.scratch' if os.path.isdir('/verif/.scratch') else None)
env = dict(os.environ); env.pop('ELEMENTPATH_VERIF', None)
cmd = b['cmd'].replace('<file>', out)
p = subprocess.run(cmd, shell=True, capture_output=True, text=True, env=env)
passed = set()
for tc in ET.parse(out).getroot().iter('testcase'):
    if not any(ch.tag in ('failure', 'error', 'skipped') for ch in tc):
        passed.add((tc.get('classname') or '') + '::' + (tc.get('name') or ''))
os.remove(out)
missing = sorted(set(b['stable_pass']) - passed)
print(f'passed={len(passed)} baseline_stable_pass={len(b["stable_pass"])} missing={len(missing)}')
for m in missing[:50]:
    print('  MISSING', m)
sys.exit(1 if missing else 0)
