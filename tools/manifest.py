#!/venv/bin/python
"""Regenerate /verif/MANIFEST.json from the table below (single source for what is claimed)."""
import json, os
HERE = os.path.dirname(os.path.dirname(os.path.abspath(__file__)))
props = [json.loads(l) for l in open(os.path.join(HERE, 'properties.jsonl'))]

# id -> (category, technique, level text, level note, design ref)
CLAIMS = {
 'C01': ('model_checking',
         'TLA+ spec (XDM/Paths) explored by TLC; every transition of the dumped state graph replayed on select/iter_select/Selector (ET+lxml, 4 parsers), libxml2 as second oracle',
         'TLC closes the (tree, node-set) graph of spec/Paths.tla under every axis x node test x predicate x // x (E)[p] construct for all trees in the stated bounds and checks the axis laws; each of the ~1.7M transitions is then replayed on the real code through the public API with order and multiplicity compared. Exhaustive within the bounds; path length is unbounded because the path is not part of the state.',
         'bounds: trees N<=3 with comments/PIs/attributes (N=4 elements+text), two element names; namespace axis not modelled; libxml2 trusted as second oracle for the specification',
         'DESIGN.md section 4 C01'),
 'C06': ('model_checking',
         'TLA+ value-state machine (Numeric) explored by TLC with the F&O laws as invariants; every edge of the dumped graph replayed as XPath expressions (literal/constructor/nested spellings, 4 parsers); python fractions as second oracle of the spec',
         'spec/Numeric.tla defines + - * div idiv mod, unary minus, abs/floor/ceiling/round/round(x,p)/round-half-to-even over exact rationals with IEEE specials and signed zero; TLC checks a=(a idiv b)*b+(a mod b), truncation, sign of mod, floor/ceiling/round, ties-to-even, promotion and division-by-zero laws on every reachable accumulator, and the graph (all grid pairs x operators, chains of two operations) is replayed on the real evaluator comparing value, type and sign of zero.',
         'grid of ~30 (quick) / ~60 (thorough) boundary values per the four types; non-dyadic decimals are not mixed with float/double (cast rounding is outside the exact model); decimal division precision and xs:float single-precision rounding are implementation-defined',
         'DESIGN.md section 4 C06'),
 'C18': ('model_checking',
         'TLA+ spec SeqTypes (XSD atomic hierarchy, SequenceType matching, subtype rules) checked by TLC (reflexive, transitive, sound); every (value,type) judgement replayed through instance of / treat as / match_sequence_type; is_sequence_type_restriction, instance-of tables and function_signatures exported from /repo into a generated TLA+ module and checked by TLC against the same laws',
         'TLC evaluates Matches and Subtype over a finite universe of ~350-465 sequence types and 49-79 values and proves the laws on the spec; the implementation relations exported at check time must satisfy the same laws and equal the spec, every counterexample is re-confirmed through the public API; each registered function signature is called with TLC-chosen arguments and the result must match the declared return type in the spec.',
         'universe bounded (16/46 atomic type names, sequences <= 2); maps/arrays against typed function tests where XDM 17.1 and XPath 2.5.6.2 disagree are not judged; schema-aware types excluded; no second oracle: mismatches adjudicated by the W3C text (refs in known_findings.d/C18.json)',
         'DESIGN.md section 4 C18'),
 'C17': ('model_checking',
         'TLA+ specs JsonString (character-level escape/unescape step machine incl. a transcription of the implementation replace chain), JsonModel (one JSON value in three representations with Serialize/ParseJson/JsonToXml/XmlToJson actions) and XmlRoundTrip (over XDM) checked by TLC; every transition replayed through serialize / parse-json / json-to-xml / xml-to-json / parse-xml with deep-equal and python json as second oracle',
         'TLC proves Unesc(Esc(s)) = s, value preservation around every cycle of the representation graph and serialise/parse round trips of XDM trees on the specification, shows that the implemented str.replace unescape chain is not confluent, and the dumped graphs (all strings <= 2-3 over the escape alphabet, JSON values of depth <= 2, trees N <= 3) are replayed on the real functions.',
         'alphabet of 10 representative characters incl. a control, DEL and an astral character; parse-json escape=true excluded; number formatting compared by value; json.loads trusted as second oracle',
         'DESIGN.md section 4 C17'),
 'C14': ('model_checking',
         'TLA+ specs XDMX (XDM extended with namespaced names, PI targets, namespace nodes, document-level siblings) and PathStrings (W3C fn:path scheme as a walk machine) checked by TLC (Eval(PathOf(n)) = {n}, injectivity); every node of every tree replayed: fn:path / node.path / etree_iter_paths strings compared with the spec rendering and evaluated back with the 3.x parsers; libxml2 as second oracle on the XPath 1.0 transliteration',
         'TLC proves on the specification that the fn:path scheme identifies every node of every tree in bounds uniquely (and refutes the as-implemented sibling counting in a negative configuration); the real path strings of every node (document, element, attribute, text, comment, PI, namespace) from three APIs must equal the spec and select exactly that node again on xml.etree and lxml, for document, element and fragment roots.',
         'trees N<=3 all kinds (N=4 restricted kinds) with two namespaces, a default namespace, PI targets pi and a; no-namespace element under a default-namespace root excluded; node.path under fragment=True compared as a string only',
         'DESIGN.md section 4 C14'),
 'C05': ('model_checking',
         'TLA+ specs Scopes (definitional environment-passing semantics of for/let/some/every/inline-function binders; scoping laws as TLC invariants; program-building machine) and SelectorHistory (one parsed expression over a pool of contexts in any order); every program and every history of the dumped graphs replayed on select / iter_select / Selector / parsed token with purity snapshots',
         'TLC enumerates every binder program reachable by wrapping (bodies, ranges, arguments, reads after the binder; two variable names force shadowing) with its value in the outer environment, checks the no-leak / let-is-for / call-is-let / nested-for laws on the specification, and the programs are evaluated by the 2.0/3.0/3.1 parsers; every history of 3 (4) evaluations over 3 contexts is replayed on one Selector and one token for 57 expressions and compared with a fresh parse on a fresh context; caller inputs (document text, variable values incl. tzinfo, namespaces) are compared after every evaluation.',
         'programs over integers/booleans only, depth 2 (quick) / 3 (thorough); ill-typed programs excluded by the WellTyped constraint; history templates are a fixed pool (paths, maps, arrays, inline functions, dateTime/implicit timezone) plus sampled Scopes programs; the oracle for histories is, as the property states, a fresh parse on a fresh context',
         'DESIGN.md section 4 C05'),
 'C07': ('model_checking',
         'TLA+ specs EBV, Compare and Logic (value comparison table, general comparison as existential closure with the untypedAtomic and XPath 1.0 compatibility rules, EBV table, and/or/not/if) checked by TLC; every edge of the dumped graph (operand sequences x operators x families x modes) replayed through the 1.0/2.0/3.0/3.1 parsers; libxml2 cross-check for the XPath 1.0 vectors',
         'TLC builds pairs of operand sequences (length <= 2, thorough 3) over 58 typed values, computes for every configuration (2.0/3.0/3.1, compatibility mode, XPath 1.0) the SET of permitted outcomes (boolean, empty, XPTY0004, FORG0001, FORG0006), checks order laws, closure, De Morgan/absorption and if-by-EBV on the specification, and each edge is evaluated on the real parsers with operands rendered as constructor calls and nodes.',
         'no second oracle beyond libxml2 for 1.0 vectors: mismatches adjudicated by the W3C text (refs in known_findings.d/C07.json); date/time values are timezone-free (implicit timezone belongs to C11); untypedAtomic vs QName marked unspecified',
         'DESIGN.md section 4 C07'),
 'C03': ('model_checking',
         'TLA+ specs Outcome (legal outcome shapes), Tokens (token-sequence machine with a grammar recogniser and one-token mutations), ParserLife (cursor reset and history independence of one parser instance) and TraceParserLife (trace validation); token sequences, mutants of harvested suite expressions and parse histories from TLC replayed on the four parsers; parse_call/parse_ret traces of the histories validated by TLC',
         'TLC enumerates every token sequence of length <= 3 over 58 representative tokens (<= 4 over 31 in thorough), TLC-chosen one-token mutations of the expressions harvested from the repository suite, and every history of <= 3 parse calls over 9 source classes on 2 instances; each is parsed by the four parsers and evaluated in three contexts with the outcome projected to value | coded error | escaped | hang and tested for membership in the legal sets printed by TLC; cursor fields after failures and history independence are compared with a fresh instance; recorded traces are accepted by the trace specification.',
         'escape classes are fingerprinted by (exception class, raising function): a new way to reach a listed class is absorbed by it; hang detection by SIGALRM with a circuit breaker; arbitrary Unicode garbage is not enumerated by TLC',
         'DESIGN.md section 4 C03'),
 'C08': ('model_checking',
         'TLA+ value-state machine SeqModel (sequence of tagged items; 40 actions: predicates, for/some/every/!, range, comma and the sequence/aggregate functions with boundary-grid arguments) explored by TLC with the F&O laws as invariants; every edge replayed as XPath text in literal/constructor/nested spellings on the 2.0/3.0/3.1 parsers; python lists as second oracle for positional functions',
         'TLC enumerates all sequences of length <= 3 over up to 9 items with every construct and grid argument (-INF..NaN positions and lengths), compositions of two constructs, and checks every = not some not, the subsequence filter identity, reverse/insert-before/remove/head/tail laws, sum/avg/min/max and cardinality-function laws on the specification; each of the 135k edges is evaluated on the real code and compared item by item with type tags.',
         'node items are opaque (positional constructs only); order and representative of distinct-values, fn:unordered and 2.0 min/max ties across int/decimal are excluded as implementation-dependent',
         'DESIGN.md section 4 C08'),
 'C11': ('model_checking',
         'TLA+ specs Calendar/CalendarSweep (proleptic Gregorian day numbers, XSD 1.0/1.1 year numbering, every swept day a TLC state), Durations and DateChain (value-state machine: construct, add/subtract durations, difference, compare, adjust timezone, components) with the timeline laws as invariants; every edge replayed on the datatypes API and as XPath expressions for XSD 1.0 and 1.1; python datetime as second oracle for years 1..9999',
         'TLC sweeps day number <-> civil date round trips over year windows on both sides of year 0 and around 100/400-year borders out to +-5M years, and explores chains of one or two operations over a grid of BCE / CE / beyond-9999 years, leap borders, 24:00:00, fractional seconds and timezones -14:00..+14:00, checking d+dur-dur=d, d1+(d2-d1)=d2, comparison = order of instants, adjust preserves the instant, end-of-month clamping; 212k edges are replayed (671k evaluations).',
         '|year| <= 5,000,000 (32-bit TLC integers); xs:duration with both parts, gDay/gMonth/gMonthDay and overflow error codes not covered; XSD 1.0 year -0001 read as 1 BCE (a leap year), as the code\'s own todelta does',
         'DESIGN.md section 4 C11'),
 'C10': ('model_checking',
         'TLA+ specs Lexical (character-level recognisers and lexical-to-value maps per type family, whitespace facets, XSD 1.0/1.1 differences), Canon (F&O canonical forms), CastTable (the 23x23 casting matrix) and CastChain (value-state machine Pick/Construct/Cast/Castable/ToStr) with fixed-point, round-trip, table and bounds laws as invariants; every literal and cast edge replayed through the three code paths (datatypes constructors/is_valid/str/hash, xs:T($s), cast/castable as) for XSD 1.0 and 1.1',
         'TLC enumerates every token string of length <= 3 (thorough 4) over the family alphabets for ~45 types and every cell of the casting table with at least two source values, checks canonical-form fixed points, round trips along Y cells, inclusive subtype bounds and castable <=> cast on the specification, and the 474k edges are replayed (1.15M evaluations) so that the three implementation paths must agree with the spec and hence with each other.',
         'alphabet representatives only for Name/NCName/language/anyURI character classes; literals the W3C text leaves to the implementation are marked UNSPEC/LIMIT and never judged; second oracles (re with the XSD patterns, decimal, float, base64) cross-check the spec only',
         'DESIGN.md section 4 C10'),
 'C19': ('model_checking',
         'TLA+ specs CollationLock (threads, per-thread stacks of with-frames, acquire/read/setlocale/fallback/yield/resume/abandon/exit actions with fault injection and installed-locale configurations; property variant and as-implemented variant), TraceCollation (ndjson trace validation) and Globals (environment gate, entity rejection, decimal context); TLC checks NoLockLeak, LocaleRestored, NoSelfWait and liveness over all interleavings; every behaviour of the replay graphs is reproduced on the real code with a scripted setlocale, an instrumented lock and a thread gate; logged traces validated by TLC',
         'TLC explores all interleavings of 2 threads x 2 calls (3 in thorough) with every setlocale fault sequence and locale configuration (630k states), must pass the invariants and weak-fairness liveness on the property variant and must refute them on the as-implemented variant; 14k behaviours are replayed on the real CollationManager and call sites (every transition validated), per-thread-sequenced event logs of collation expressions and stress runs are accepted by the trace specification, and after every evaluation LC_COLLATE, the lock, os.environ and the decimal context are compared; environment and entity-declaration vectors come from the Globals graph.',
         'only C, C.utf8 and POSIX locales exist here: faults and other locales are scripted through a patched locale.setlocale; the 8-thread run of independent Selectors is exploration, not model checking; XPath2Parser.__init__ reading LC_COLLATE without the lock is noted only',
         'DESIGN.md section 4 C19'),
 'C04': ('model_checking',
         'TLA+ specs Grammar (per-version EBNF levels and associativity with a declarative GrammarTree and a sentence generator) and Pratt (step machine of Parser.expression with frames, nud/led/loop test, parameterised by a binding-power table) with the refinement invariant PrattTree = GrammarTree checked by TLC for a reference table AND for the lbp/rbp table exported from the live parsers; every generated sentence replayed through the four parsers in three layouts and four hash seeds; source round trip; (source, tree) pairs of the repository suite checked against TLC trees',
         'TLC explores the Pratt machine over every operator/operand sentence of <= 2-3 operators (thorough 4) with parenthesis groups for versions 1.0-3.1 (1.8M states) and proves it builds the tree the grammar prescribes; run with the exported binding powers it yields counterexamples naming the operators when a bp literal changes; 62k sentences are parsed in minimal/spaced/commented layouts under PYTHONHASHSEED 0,1,2,seed (559k parses), trees and re-parsed sources compared; 3k suite parses in the modelled fragment are checked against the spec trees; libxml2 accepts exactly the 1.0 sentences the spec has a tree for.',
         'operator structure only (not the 250 function names); comma in argument lists, prefixed function names, axes and FLWOR constructs are counted and skipped in the suite binding; custom nud/led guards are transcribed in the impl mode of Pratt.tla',
         'DESIGN.md section 4 C04'),
 'C09': ('model_checking',
         'TLA+ value-state machine Strings (strings as sequences of real code points over a 12-character alphabet incl. combining mark, astral character, NBSP; substring with fn:round and IEEE addition, substring-before/after, contains, starts/ends-with, translate, normalize-space, string-length, case mapping, concat, compare, codepoints, URI escaping with UTF-8 computed in TLA+) with the F&O laws as invariants; every edge replayed with variables on the 1.0/2.0/3.1 parsers; libxml2 as second oracle and property clause for the 1.0 functions',
         'TLC enumerates all strings of length <= 3 (thorough 4) x second strings <= 2 x a 13x9 grid of start/length doubles (-INF, ties at .5, NaN, INF), chains of two functions, and checks the round-trip identities, length additivity, first-occurrence, idempotence and slice formulations on the specification; 275k edges are replayed (818k evaluations, 226k also through libxml2).',
         'case mapping and collation beyond the ASCII pair and normalize-unicode are excluded; error codes are not compared (the property names none)',
         'DESIGN.md section 4 C09'),
 'C20': ('model_checking',
         'TLA+ specs SchemaTyping (abstract schemas with sequence content models, simple/list/union/restriction/simple-content types, nillable/default/xsi:type; valid instances; declared annotation, typed value and instance-of chain), SchemaWalk (step machine of apply_schema with type stack, per-model match cache, lazy attribute typing and the context history None->S->None->S\') and SchemaSelect (path steps over XDM) checked by TLC; every (schema, instance, history) replayed with xmlschema proxies: type_name / typed_value per node vs the spec and vs xmlschema\'s decoder, instance of element(*,T), arithmetic on typed nodes, selection with and without schema',
         'TLC enumerates schema x instance x history triples (416 quick, 3.9k thorough) and selection pairs, proves annotation = declaration, no stale cache after any history and schema-independent selection on the specification; XSD text and instance XML are rendered from the TLC state and evaluated through the real schema proxy (342k evaluations); xmlschema is_valid/decode and libxml2 are second oracles for the spec.',
         'wildcards, substitution groups, identity constraints, assertions excluded; defaulted attributes are PSVI nodes so selection is compared relationally; union lexicals with surrounding whitespace excluded',
         'DESIGN.md section 4 C20'),
 'C15': ('model_checking',
         'TLA+ history machine MapArray (store of immutable values addressed by handles; 31 actions: map/array constructors, map:* and array:* functions, lookup, deep-equal; SameKey per op:same-key; merge policies with nondeterministic successors) with the action property Immutable and the map/array laws as invariants; every edge replayed through XPath 3.1 expressions and through the XPathMap/XPathArray Python API, projecting ALL live handles after every step',
         'TLC explores operation histories of length <= 2 (thorough 3) over maps <= 3 entries with a 13-18 key alphabet (numeric keys across types, NaN, string/anyURI/untypedAtomic, boolean, date, QName) and arrays <= 3 members, proves get/put/remove/size/merge laws, 1-based FOAY0001/FOAY0002 list model, deep-equal equivalence and that no action changes an existing handle (and must refute Immutable for an in-place variant); 37k edges are replayed (185k evaluations) and after each one every operand and earlier value is re-projected and compared.',
         'the library flattens arrays in select() results (API convention, not judged: values are read back through map{0:(EXPR)}); python lists cross-check the array operators of the spec only',
         'DESIGN.md section 4 C15'),
 'C02': ('model_checking',
         'TLA+ specs XTree (abstract input and definitional document order / parent / children / string value), TreeBuild (step machine transcribing build_node_tree and build_lxml_node_tree: position counter, iterator/ancestor stacks, the reserved gap, lazy namespace/attribute nodes, lxml document-level siblings) with the refinement invariants, NodeOps (is, <<, >>, union/intersect/except, innermost/outermost/root) and TraceTreeBuild (trace validation of larger real trees); every behaviour replayed through get_node_tree / build_node_tree / build_lxml_node_tree / XPathContext and the operators as XPath expressions; libxml2 second oracle for the spec',
         'TLC runs the builder step machine on every input tree in bounds (N<=4 shapes, attributes 0..2, namespace declarations, xml prefix, text/tail, lxml document-level siblings, root x fragment x namespaces configurations: 18.5k behaviours) and proves faithful, strictly increasing, parent/children-consistent node trees including lazily created nodes inside the gap; each behaviour is built by the real builders through three entry points and compared node by node; NodeOps graphs (113k edges) are replayed as expressions; 240 random real trees of 10-60 items are recorded as (kind, position, parent) traces and validated by TLC against TreeBuild.',
         'exact position numbers are diagnostic only (the property demands uniqueness and order); attribute and namespace-node order inside one element compared as a set; xmlns="" undeclaration and empty text chunks excluded; nodes of different trees under << not modelled',
         'DESIGN.md section 4 C02'),
 'C13': ('model_checking',
         'TLA+ specs CodePointSet (abstract set algebra with canonical representation), CodePointSetImpl (transcription of UnicodeSubset add/discard/contains/iter/complement/update and the set operators, as-implemented and repaired variants), CodePointPieces, UnicodeTables (laws over category/block tables EXPORTED from /repo) and CodePointSetInd (Apalache inductive step); every transition replayed on real UnicodeSubset / CharacterClass objects through four offset windows incl. the top of the code space; table obligations checked by TLC; point-wise unicodedata sweep as plain harness',
         'TLC explores every operation from every subset of a 7-point universe (8/10 in thorough) with all argument forms, proves the set laws and canonicity on the abstract model, refutes canonicity for the as-implemented transcription and proves it for the repaired one; 817k transitions are replayed on the real classes (membership, iteration, len, ==, raw list) in windows at 1, 65, 0xD7FD and 0x10FFFA; the exported category and block tables of the installable Unicode versions must satisfy 8955 partition/disjointness obligations.',
         'transitions whose implementation walks every integer of a million-code-point block are replayed on a sample (exhaustive=false, count in the evidence); the unicodedata.category equality for all 0x110000 code points is a harness sweep, not model checking; Apalache proof only in thorough',
         'DESIGN.md section 4 C13'),
}
NOT_YET = 'check not built yet (construction in progress, see DESIGN.md section 5)'

def main():
    m = {
     'version': 1,
     'setup_cmd': '/venv/bin/python -m compileall -q /verif/engine >/dev/null 2>&1; mkdir -p /verif/.scratch /verif/evidence; true',
     'hooks': {
      'guard': 'ELEMENTPATH_VERIF',
      'enable': "no source hooks in /repo: checks import /repo's working tree (sys.path) and install monkeypatch instrumentation from /verif/engine only when ELEMENTPATH_VERIF=1 (set by ./check)",
      'baseline_off_cmd': 'cd /repo && /venv/bin/python -m pytest -ra -q -p no:cacheprovider --timeout=900 --continue-on-collection-errors',
      'source_commits': [],
      'add_only': True,
     },
     'engines': [
      {'name': 'tlc-graph-replay', 'path': 'engine/', 'serves_properties': sorted(CLAIMS),
       'kind_free_text': 'TLA+ specifications in spec/ model-checked by TLC; state graph / printed vectors replayed into the implementation (binding A), implementation traces and tables validated by TLC (bindings B, C)'}],
     'checks': [],
     'not_applicable': [],
     'notes': 'exit 2 = machinery failure (TLC error, vacuous model, second-oracle disagreement). known_findings.json lists genuine defects by class fingerprint; fix: commits in /repo are recorded there as fixed.',
    }
    for p in props:
        pid = p['id']
        if pid in CLAIMS:
            cat, tech, text, note, ref = CLAIMS[pid]
            m['checks'].append({
             'property_id': pid,
             'quick_cmd': f'./check {pid} --tier quick',
             'thorough_cmd': f'./check {pid} --tier thorough',
             'evidence_file': f'/verif/evidence/{pid}.json',
             'replay_cmd_template': f'./check {pid} --replay {{path}}',
             'engine': 'tlc-graph-replay',
             'level_claimed': {'category': cat, 'text': text, 'design_ref': ref},
             'level_note': note,
             'technique': tech,
            })
        else:
            m['not_applicable'].append({'property_id': pid, 'reason': NOT_YET})
    json.dump(m, open(os.path.join(HERE, 'MANIFEST.json'), 'w'), indent=1)
    print('claimed', sorted(CLAIMS), 'not yet', [x['property_id'] for x in m['not_applicable']])

main()
