#!/bin/bash
# tools/applyfix.sh <diff-file> "<commit message starting with fix:>"   -- apply a proposed fix to /repo as one commit
set -e
cd /repo
sed -n '/^diff --git/,$p' "$1" > /tmp/applyfix.diff
git apply --recount /tmp/applyfix.diff
git commit -qam "$2"
echo "applied $(basename $1) -> $(git log --oneline -1 | cut -c1-7)"
