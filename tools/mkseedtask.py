#!/usr/bin/env python3
"""tools/mkseedtask.py ROUND PROP...  -- write /tmp/seed<ROUND>-<PROP>-TASK.md for a fresh seeding sub-agent (which gets ONLY that
file and its own worktree /tmp/seed<ROUND>-<PROP>): property text, relevant code, and one-line summaries of the changes of
earlier rounds (from seeded/*/meta.json) so that it produces different ones.  The worktree is created at /repo HEAD."""
import glob, json, os, re, subprocess, sys
rnd, props = sys.argv[1], sys.argv[2:]
P = {json.loads(l)['id']: json.loads(l) for l in open('/verif/properties.jsonl')}
for p in props:
    tag = f'seed{rnd}-{p}'
    wt = f'/tmp/{tag}'
    subprocess.run(f'git -C /repo worktree remove --force {wt}', shell=True, capture_output=True)
    subprocess.run(f'rm -rf {wt} {wt}-out; git -C /repo worktree prune; git -C /repo worktree add --detach {wt} HEAD', shell=True, capture_output=True)
    os.makedirs(f'{wt}-out', exist_ok=True)
    base = open(f'/tmp/seed2-{p}-TASK.md').read()
    rel = re.search(r'^Relevant code:.*$', base, re.M).group(0)
    earlier = []
    for d in sorted(glob.glob(f'/verif/seeded/{p}-*')):
        m = json.load(open(d + '/meta.json'))
        earlier.append('  - ' + ' '.join(m['needs_to_manifest'].split())[:330])
    text = f'''You have your own scratch git worktree of the pure-Python XPath library sissaschool/elementpath at {wt} (work ONLY there and in {wt}-out; do not read or touch /verif or /repo or any other /tmp/seed* directory). Python: /venv/bin/python (lxml installed). Other jobs share the machine: be patient with long runs.

Test-suite: `cd {wt} && /venv/bin/python -m pytest -q -p no:cacheprovider --timeout=900 -q` -- NOTE 24 tests fail in this sandbox already on the unchanged tree for locale reasons (test_compare_function, test_deep_equal_function, test_max_function, test_default_collation_argument in several modules); save the baseline list of failed test ids first and check that exactly the same set fails after each change. IMPORTANT: always run your demos with PYTHONPATH={wt} - from another directory the interpreter would otherwise import an installed copy of the library.

This semantic property of the library should always hold:

  "{P[p]['statement']}"

{rel}

YOUR TASK: produce THREE different, independent changes to the library source (under elementpath/ only, not the tests) each of which BREAKS this property while the package still imports and the existing test-suite still passes exactly as before (same failing set as the baseline). This is round {rnd}: {int(rnd) - 1} earlier rounds already produced the changes summarised below, and all of them are detected by a verification harness (which by now also re-evaluates every parsed expression several times with different inputs, checks process-wide caches and tables after use, uses values beyond 2^53 and empty-string text chunks). Produce changes of a DIFFERENT NATURE from all of them - other clauses of the property text, other code sites, other mechanisms. Think about what a maintainer could realistically get wrong: an off-by-one at a boundary that tiny examples do not reach, a wrong operator or swapped arguments in one rarely taken branch, a type/kind confusion for one node kind or one datatype, an error path that changes state, mishandling of one specific Unicode range / timezone / namespace / sign / zero / NaN / empty value, a difference that exists only for one parser version (1.0, 2.0, 3.0 or 3.1) or one tree library (xml.etree vs lxml) or one API entry point (select vs iter_select vs Selector vs token.evaluate), a wrong default, or an interaction of two language features. Each change must still clearly violate the property AS STATED (quote the clause it violates), be realistic, and be as hard to notice as you can make it.

Earlier rounds (do NOT repeat these mechanisms):
''' + '\n'.join(earlier) + f'''

Do not merely re-introduce a defect that the git history of the worktree shows as recently fixed (`git log --oneline | head -160`).

For each change i in 1..3 write into {wt}-out/: `patch<i>.diff` (output of `git diff`, applies alone to the clean tree), `demo<i>.py` (a small standalone program, run as `PYTHONPATH={wt} /venv/bin/python demo<i>.py`, that exits 0 on the clean tree and exits 1 printing what went wrong on the changed tree), and a numbered item `<i>. patch<i>.diff - ...` in `notes.md`: which mechanism, which clause of the property it violates, what it NEEDS in order to manifest, and the exact commands you ran with their results (test-suite failing set unchanged: yes/no; demo on clean tree: exit code; demo on changed tree: exit code). Reset the worktree (`git checkout -- .`) between changes and leave it clean at the end. Do not commit. Final message: a 10-line summary of the three changes.
'''
    open(f'/tmp/{tag}-TASK.md', 'w').write(text)
    print('wrote', f'/tmp/{tag}-TASK.md', len(earlier), 'earlier')
