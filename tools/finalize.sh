#!/bin/bash
# tools/finalize.sh : final validation on the unchanged tree: every claimed quick check + the extension checks,
# MANIFEST regenerated, generated DESIGN tables refreshed, MANIFEST / evidence validated against the schemas.
cd /verif
tools/runall.sh quick > .scratch/final_quick.log 2>&1
tools/runall.sh quick X01 X02 X03 X04 X05 > .scratch/final_ext.log 2>&1
/venv/bin/python tools/manifest.py > .scratch/final_manifest.log 2>&1
python3 tools/seedtable.py; python3 tools/findingtable.py
python3-vt - <<'PY'
import json, jsonschema, glob
m = json.load(open('/verif/MANIFEST.json'))
jsonschema.validate(m, json.load(open('/root/.vp/MANIFEST.schema.json')))
es = json.load(open('/root/.vp/EVIDENCE.schema.json'))
for c in m['checks']:
    jsonschema.validate(json.load(open(c['evidence_file'])), es)
print('manifest + %d evidence files valid' % len(m['checks']))
PY
cat .scratch/final_quick.log .scratch/final_ext.log | cut -c1-150
