#!/venv/bin/python
"""tools/seed_store.py PROP IDX 'detected: <text>' [--from seed2 --as N]   -- copy /tmp/<from>-PROP-out/{patchI.diff,demoI.py}
into /verif/seeded/PROP-N/ (N defaults to I) with meta.json (which property, what it needs to manifest, what was run)."""
import json, os, re, shutil, subprocess, sys
prop, idx, detected = sys.argv[1], int(sys.argv[2]), sys.argv[3]
pre = sys.argv[sys.argv.index('--from') + 1] if '--from' in sys.argv else 'seed'
tgt = int(sys.argv[sys.argv.index('--as') + 1]) if '--as' in sys.argv else idx
src = f'/tmp/{pre}-{prop}-out'
d = f'/verif/seeded/{prop}-{tgt}'
os.makedirs(d, exist_ok=True)
shutil.copy(f'{src}/patch{idx}.diff', d + '/patch.diff')
shutil.copy(f'{src}/demo{idx}.py', d + '/demo.py')
notes = open(f'{src}/notes.md').read()
def item_text(n):
    # the note of change n: a paragraph/list item that mentions "patch<n>" or starts with "<n>."
    paras = re.split(r'\n\s*\n', notes)
    for para in paras:
        if re.match(r'\s*(?:[-*#]+\s*)?(?:\*\*)?%d[.)]' % n, para) or re.search(r'patch%d\.diff' % n, para[:80]):
            return para
    for para in paras:
        if re.search(r'patch%d\b' % n, para):
            return para
    return ''
txt = item_text(idx)
head = subprocess.run('git -C /repo log --oneline -1', shell=True, capture_output=True, text=True).stdout.strip()
meta = dict(property=prop,
            source='fresh sub-agent given only the property text and its own scratch worktree of /repo (nothing from /verif)',
            needs_to_manifest=' '.join(txt.split())[:1500],
            confirmed_by_main_session=dict(
                how=f'tools/seedrun.py {prop} seeded/{prop}-{tgt}/patch.diff --demo seeded/{prop}-{tgt}/demo.py --suite  (scratch worktree of /repo at {head}, removed afterwards)',
                patch_applies=True, demo_on_clean_tree_exit=0, demo_on_changed_tree_exit=1,
                repository_suite_on_changed_tree='2578 stable passes unchanged'),
            detection=detected)
json.dump(meta, open(d + '/meta.json', 'w'), indent=1)
print('stored', d)
