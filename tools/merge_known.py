#!/venv/bin/python
"""Merge known_findings.d/*.json into the single committed file known_findings.json and add the literal
record line of every repaired defect:  "fixed: property=<id> <commit> <what failed>"."""
import json, os
V = '/verif'
main = json.load(open(f'{V}/known_findings.json'))['findings']
d = f'{V}/known_findings.d'
if os.path.isdir(d):
    for fn in sorted(os.listdir(d)):
        if fn.endswith('.json'):
            main += json.load(open(os.path.join(d, fn)))['findings']
            os.remove(os.path.join(d, fn))
seen = set(); out = []
for k in main:
    key = json.dumps({x: k.get(x) for x in ('property', 'status', 'fingerprint', 'what', 'commit')}, sort_keys=True)
    if key in seen:
        continue
    seen.add(key)
    if k.get('status') == 'fixed':
        k['record'] = f"fixed: property={k['property']} {k.get('commit', '?')} {k['what']}"
    out.append(k)
out.sort(key=lambda k: (k['property'], 0 if k.get('status', 'known') == 'known' else 1))
json.dump({'findings': out}, open(f'{V}/known_findings.json', 'w'), indent=1)
print(len(out), 'entries;', sum(1 for k in out if k.get('status') == 'fixed'), 'fixed')
