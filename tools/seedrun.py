#!/venv/bin/python
"""Run a property's check against a seeded change without touching /repo's working tree.

  tools/seedrun.py <PROP> <patch.diff> [--tier quick] [--demo demo.py]

Creates a detached worktree of /repo HEAD under /tmp, applies the patch, optionally runs the
demonstration (must fail there and pass on /repo), runs `VERIF_REPO=<wt> ./check PROP`, prints
CAUGHT / MISSED, removes the worktree.  Evidence written by this run is restored afterwards.
"""
import argparse, os, shutil, subprocess, sys, tempfile
ap = argparse.ArgumentParser()
ap.add_argument('prop'); ap.add_argument('patch'); ap.add_argument('--tier', default='quick'); ap.add_argument('--demo'); ap.add_argument('--suite', action='store_true', help='also run the repository test-suite on the changed tree and compare with BASELINE stable_pass'); ap.add_argument('--no-check', action='store_true')
a = ap.parse_args()
wt = tempfile.mkdtemp(prefix=f'seedrun-{a.prop}-', dir='/tmp')
os.rmdir(wt)
def sh(cmd, **kw):
    return subprocess.run(cmd, shell=True, capture_output=True, text=True, **kw)
r = sh(f'git -C /repo worktree add --detach {wt} HEAD')
if r.returncode: print(r.stderr); sys.exit(2)
ev = f'/verif/evidence/{a.prop}.json'
bak = None
if os.path.exists(ev):
    bak = ev + '.bak'; shutil.copy(ev, bak)
try:
    r = sh(f'git -C {wt} apply {os.path.abspath(a.patch)}')
    if r.returncode:
        r = sh(f'git -C {wt} apply --3way {os.path.abspath(a.patch)}')   # the tree moved on (fix: commits): merge
        if r.returncode or 'with conflicts' in (r.stdout + r.stderr):
            print('PATCH DOES NOT APPLY', r.stderr[-400:]); sys.exit(2)
        print('patch applied with 3-way merge')
    if a.demo:
        d0 = sh(f'PYTHONPATH=/repo /venv/bin/python {a.demo}'); d1 = sh(f'PYTHONPATH={wt} /venv/bin/python {a.demo}')
        print(f'demo: clean exit={d0.returncode} changed exit={d1.returncode}')
    if a.suite:
        import json, xml.etree.ElementTree as ET
        b = json.load(open('/root/.vp/BASELINE.json'))
        out = wt + '.junit.xml'
        e2 = dict(os.environ); e2.pop('ELEMENTPATH_VERIF', None); e2.pop('VERIF_REPO', None)
        subprocess.run(f'cd {wt} && /venv/bin/python -m pytest -q -p no:cacheprovider --timeout=900 --continue-on-collection-errors --junitxml={out}', shell=True, capture_output=True, text=True, env=e2)
        passed = set()
        for tc in ET.parse(out).getroot().iter('testcase'):
            if not any(ch.tag in ('failure', 'error', 'skipped') for ch in tc):
                passed.add((tc.get('classname') or '') + '::' + (tc.get('name') or ''))
        os.remove(out)
        missing = sorted(set(b['stable_pass']) - passed)
        print(f'suite on changed tree: passed={len(passed)} missing_from_baseline={len(missing)} {missing[:3]}')
    if a.no_check:
        sys.exit(0)
    env = dict(os.environ, VERIF_REPO=wt)
    r = subprocess.run(['./check', a.prop, '--tier', a.tier], cwd='/verif', env=env, capture_output=True, text=True)
    lines = [l for l in r.stdout.splitlines() if l.startswith(('VIOLATION', 'MACHINERY', '  class='))]
    print('\n'.join(lines[:8]))
    print(r.stdout.splitlines()[-1] if r.stdout else r.stderr[-500:])
    print('RESULT', 'CAUGHT' if r.returncode == 1 else ('MACHINERY(rc=2)' if r.returncode == 2 else 'MISSED'), f'rc={r.returncode}')
finally:
    sh(f'git -C /repo worktree remove --force {wt}')
    shutil.rmtree(os.path.join('/verif/replays', a.prop), ignore_errors=True)
    if bak: shutil.move(bak, ev)
