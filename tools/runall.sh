#!/bin/bash
# tools/runall.sh [tier] [props...] : run the claimed checks sequentially, one summary line each
tier=${1:-quick}; shift
props=${@:-$(/venv/bin/python -c "import json;print(' '.join(c['property_id'] for c in json.load(open('/verif/MANIFEST.json'))['checks']))")}
cd /verif
for p in $props; do
  s=$(date +%s)
  out=$(./check $p --tier $tier 2>&1); rc=$?
  e=$(date +%s)
  echo "$p rc=$rc $((e-s))s $(echo "$out" | grep -c '^KNOWN-FINDING') known; $(echo "$out" | grep -c '^VIOLATION') violations; $(echo "$out" | tail -1 | cut -c1-160)"
  if [ $rc -ne 0 ]; then echo "$out" | grep -A1 '^VIOLATION\|MACHINERY' | head -12 | cut -c1-300; fi
done
