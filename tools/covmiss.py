#!/venv/bin/python
"""Development aid: tools/covmiss.py PROP FILE-SUBSTRING [FUNC-REGEX]  -- source lines of the functions matching FUNC-REGEX
that the check of PROP never executed (from .scratch/cov/PROP.json written by tools/covaudit.sh)."""
import ast, json, re, sys
prop, fsub = sys.argv[1], sys.argv[2]
frx = re.compile(sys.argv[3]) if len(sys.argv) > 3 else None
cov = json.load(open(f'/verif/.scratch/cov/{prop}.json'))['files']
for path, d in cov.items():
    if fsub not in path:
        continue
    missing = set(d['missing_lines'])
    src = open(path).read().split('\n')
    tree = ast.parse('\n'.join(src))
    for node in ast.walk(tree):
        if isinstance(node, (ast.FunctionDef, ast.AsyncFunctionDef)) and (frx is None or frx.search(node.name)):
            lines = [l for l in range(node.lineno, node.end_lineno + 1) if l in missing]
            body_first = node.body[0].lineno
            if not lines:
                continue
            total = node.end_lineno - node.lineno + 1
            status = 'NEVER CALLED' if body_first in missing or all(l in missing for l in range(body_first, node.end_lineno + 1) if l in missing | set(d['executed_lines'])) and not any(l in d['executed_lines'] for l in range(body_first, node.end_lineno + 1)) else 'partial'
            print(f'--- {path.split("elementpath/")[-1]}:{node.lineno} {node.name} [{status}] missed {len(lines)} lines')
            if status == 'partial':
                for l in lines:
                    print(f'   {l}: {src[l - 1]}')
